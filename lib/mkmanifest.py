"""Regenerates MANIFEST.json from the table below (kept in one place so it stays valid)."""
import json, os, sys
VERIF = os.path.dirname(os.path.dirname(os.path.abspath(__file__)))
sys.path.insert(0, VERIF)
from props.table import CHECKS, NOT_APPLICABLE

def main():
    checks = []
    for pid, c in sorted(CHECKS.items()):
        checks.append({
            'property_id': pid,
            'quick_cmd': './check %s --tier quick' % pid,
            'thorough_cmd': './check %s --tier thorough' % pid,
            'evidence_file': 'evidence/%s.json' % pid,
            'replay_cmd_template': './check %s --replay {path}' % pid,
            'engine': c['engine'],
            'level_claimed': {'category': c['level'], 'text': c['text'], 'design_ref': c['design_ref']},
            'level_note': c['note'],
            'technique': c['technique'],
        })
    m = {
        'version': 1,
        'setup_cmd': './setup.sh',
        'hooks': {'guard': 'ALGOPY_VERIF', 'enable': 'no repository hooks are needed: contracts are sidecar files under /verif/contracts, run-time contracts are installed by wrapping attributes of the imported algopy modules inside the checker process',
                  'baseline_off_cmd': 'cd /repo && /venv/bin/python -m pytest -ra -q -p no:cacheprovider --timeout=900 --continue-on-collection-errors',
                  'source_commits': [], 'add_only': True},
        'engines': [
            {'name': 'tpvc', 'path': 'vc/', 'serves_properties': ['C01', 'C02', 'C07', 'C12', 'C14'], 'kind_free_text': 'contract-based deductive verification: symbolic execution of the real function ASTs of /repo against sidecar contracts (requires/ensures/loop invariants/modifies/aliasing configurations), VCs discharged by z3'},
            {'name': 'ixvc', 'path': 'vc/', 'serves_properties': ['C09', 'C13', 'C15', 'C17'], 'kind_free_text': 'same executor in integer/index mode'},
            {'name': 'structural', 'path': 'structural/', 'serves_properties': ['C03', 'C04', 'C05', 'C06', 'C11'], 'kind_free_text': 'obligations decided by a complete traversal of the real AST (signature conformance, frames, direction typing, stale state)'},
            {'name': 'bounded', 'path': 'bounded/', 'serves_properties': ['C03', 'C04', 'C05', 'C06', 'C08', 'C10', 'C11', 'C13'], 'kind_free_text': 'run-time contracts on the real functions over a bounded enumeration; stand-in, never counted as proved'},
        ],
        'checks': checks,
        'not_applicable': [{'property_id': p, 'reason': r} for p, r in sorted(NOT_APPLICABLE.items())],
        'notes': 'See DESIGN.md. Exit codes: 0 held / 1 violation (VIOLATION line) / 3 checker crash. KNOWN-FINDING lines list recorded genuine defects (known_findings.json).',
    }
    json.dump(m, open(os.path.join(VERIF, 'MANIFEST.json'), 'w'), indent=1)
    import jsonschema
    jsonschema.validate(m, json.load(open('/root/.vp/MANIFEST.schema.json')))
    print('MANIFEST.json written: %d checks, %d not_applicable' % (len(checks), len(m['not_applicable'])))
main()
