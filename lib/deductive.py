"""Parallel discharge of (contract, configuration) tasks + triage of failures (DESIGN 1, 3.5, 3.6)."""
import json, os, sys, time, random, traceback, multiprocessing as mp
REPO = os.environ.get('ALGOPY_REPO', '/repo')


def _registry():
    from contracts import registry
    return registry.ALL


def run_one(args):
    t0 = time.time()
    if os.environ.get('VERIF_TASKLOG'):
        with open(os.environ['VERIF_TASKLOG'], 'a') as fh: fh.write('%d start %s %s\n' % (os.getpid(), args[0], args[1]))
    out = _run_one(args)
    if os.environ.get('VERIF_TASKLOG'):
        with open(os.environ['VERIF_TASKLOG'], 'a') as fh: fh.write('%d done %s %s %.1f\n' % (os.getpid(), args[0], args[1], time.time() - t0))
    out['wall_s'] = round(time.time() - t0, 1)
    return out


def _run_one(args):
    key, cfg, tier, seed = args
    import z3
    from vc.contract import verify_cfg
    from vc import cex
    from lib import native
    reg = _registry(); con = reg[key]
    out = {'function': con.qual, 'key': key, 'cfg': cfg, 'file': con.file, 'obligations': [], 'undecided': None, 'sha': None,
           'violation': None, 'native_cells': 0, 'native_runs': 0, 'bounded_in_D': None, 'crash': None}
    try:
        if getattr(con, 'bounded_D', None):
            return run_bounded_D(con, key, cfg, reg, tier, seed, out)
        r = verify_cfg(con, cfg, reg, REPO)
        out['obligations'] = r.obligations; out['undecided'] = r.undecided; out['sha'] = r.sha
        out['cov'] = getattr(r, 'cov', None)
        failed = [o for o in r.obligations if o['verdict'] != 'unsat']
        rng = random.Random(seed * 7919 + __import__("zlib").crc32((key + cfg).encode()) % 10007)
        has_oracle = hasattr(con, 'oracle') and type(con).oracle is not __import__('vc.contract', fromlist=['Contract']).Contract.oracle
        if failed and has_oracle:
            # the verifier's counterexample: concrete-D instance with a real model, replayed against the real code
            cands = cex.search(con, cfg, reg, REPO, Ds=con.cex_D)
            for cand in cands:
                for P, shp in ((1, ()), (2, (2,))):
                    try: n, fail = native.check_kernel(con, cfg, cand['D'], P, shp, rng, cell0=cand['cell0'], scal=dict(con.native_scalars(cfg, rng), **cand['scalars']))
                    except Exception: continue
                    if fail:
                        out['violation'] = {'kind': 'solver-model-replayed', 'failure': fail, 'obligation': cand['obligation'], 'model': cand['model'],
                                            'obligations_failed': [o['name'] for o in failed]}; return out
            # wider seeded native search before giving up on an input
            for D in (2, 3, 4, 6, 7):
                for k in range(8):
                    n, fail = native.check_kernel(con, cfg, D, 2, (2,), rng)
                    out['native_cells'] += n; out['native_runs'] += 1
                    if fail:
                        out['violation'] = {'kind': 'native', 'failure': fail, 'obligations_failed': [o['name'] for o in failed]}; return out
            if getattr(con, 'dataflow', False) and not any(o['verdict'] == 'sat' and o['kind'] in ('safety', 'callee-pre', 'frame') for o in failed):
                # spec-view chain: the proof follows the code's dataflow syntactically, so an undischarged chain obligation without a
                # failing input means "the proof script no longer fits this code", not "the property fails": undecided, stand-in deepened below
                r.undecided = 'spec-view chain obligation(s) not discharged and no failing input found: %s' % [o['name'] for o in failed]
                out['undecided'] = r.undecided
            else:
                out['violation'] = {'kind': 'no-input', 'obligations_failed': [o['name'] for o in failed],
                                    'solver_output': [{'obligation': o['name'], 'verdict': o['verdict'], 'why': o['why']} for o in failed],
                                    'cex_models_not_reproduced': [c['model'] for c in cands][:2]}
        elif failed:
            if getattr(con, 'dataflow', False) and not any(o['verdict'] == 'sat' and o['kind'] in ('safety', 'callee-pre', 'frame') for o in failed):
                # spec-view chain without a per-function native oracle: same rule as above -- the proof script no longer fits, not a verdict
                r.undecided = 'spec-view chain obligation(s) not discharged (no per-function oracle to search for an input): %s' % [o['name'] for o in failed]
                out['undecided'] = r.undecided
            else:
                out['violation'] = {'kind': 'no-input', 'obligations_failed': [o['name'] for o in failed],
                                    'solver_output': [{'obligation': o['name'], 'verdict': o['verdict'], 'why': o['why']} for o in failed]}
        if out['violation'] is None and has_oracle:
            # bounded native stand-in (also the audit of the executor's NumPy model, assumption A9): always run
            try:
                nD = (1, 2, 3, 5) if tier == 'quick' else (1, 2, 3, 4, 5, 6, 8)
                for D in nD:
                    for (P, shp) in (((1, ()), (2, (2,))) if tier == 'quick' else ((1, ()), (2, (2,)), (3, (2, 2)))):
                        n, fail = native.check_kernel(con, cfg, D, P, shp, rng)
                        out['native_cells'] += n; out['native_runs'] += 1
                        if fail:
                            out['violation'] = {'kind': 'native', 'failure': fail, 'obligations_failed': [o['name'] for o in failed]}; return out
            except NotImplementedError:
                has_oracle = False
        if out['violation'] is None and has_oracle and r.undecided:
            # the function left the verified subset: the proof no longer speaks for it, so the stand-in is deepened
            # (large truncation degrees included: a change may only affect high orders)
            deep = (7, 9, 12, 16, 24, 33, 40, 65) if not con.cell_shapes(cfg) else (5, 6, 8, 11)
            for D in deep:
              for rep_ in range(4):              # several draws per degree: scalar parameters (exponents, ...) and sparsity patterns vary
                n, fail = native.check_kernel(con, cfg, D, 2, (2,), rng)
                out['native_cells'] += n; out['native_runs'] += 1; out['deep_standin'] = list(deep)
                if fail:
                    out['violation'] = {'kind': 'native', 'failure': fail, 'obligations_failed': ['(function undecided: %s)' % r.undecided]}; return out
    except Exception as e:
        out['crash'] = traceback.format_exc()
    return out


def run_bounded_D(con, key, cfg, reg, tier, seed, out):
    """unrolled symbolic execution: for each concrete D the loops are unrolled and the obligations are quantifier free -- a complete
    proof for that D and ALL coefficient values, reported as `bounded in D` and never added to the proved counts"""
    import z3
    from vc.contract import verify_cfg
    from lib import native
    rng = random.Random(seed * 7919 + __import__("zlib").crc32((key + cfg).encode()) % 10007)
    Ds = con.bounded_D if tier == 'quick' else getattr(con, 'bounded_D_thorough', con.bounded_D)
    tot = ok = 0; failed = []
    for D in Ds:
        r = verify_cfg(con, cfg, reg, REPO, D=D)
        out['sha'] = r.sha
        if r.undecided: out['undecided'] = r.undecided; break
        out['cov'] = getattr(r, 'cov', None)
        tot += len(r.obligations); ok += sum(1 for o in r.obligations if o['verdict'] == 'unsat')
        failed += [dict(o, D=D) for o in r.obligations if o['verdict'] != 'unsat']
        if failed: break
    out['bounded_in_D'] = {'D': list(Ds), 'obligations': tot, 'discharged': ok, 'failed': [(f['D'], f['name'], f['verdict']) for f in failed]}
    has_oracle = type(con).oracle is not __import__('vc.contract', fromlist=['Contract']).Contract.oracle
    if has_oracle:
        for D in ((1, 2, 3, 5) if tier == 'quick' else (1, 2, 3, 4, 5, 6, 8)) + ((7, 9, 12, 16) if (failed or out['undecided']) else ()):
            for (P, shp) in ((1, ()), (2, (2,))):
                n, fail = native.check_kernel(con, cfg, D, P, shp, rng)
                out['native_cells'] += n; out['native_runs'] += 1
                if fail:
                    out['violation'] = {'kind': 'native', 'failure': fail, 'obligations_failed': [f['name'] for f in failed]}; return out
    if failed:
        out['violation'] = {'kind': 'no-input', 'obligations_failed': ['D=%d: %s' % (f['D'], f['name']) for f in failed],
                            'solver_output': [{'D': f['D'], 'obligation': f['name'], 'verdict': f['verdict'], 'why': f['why']} for f in failed]}
    return out


def run_tasks(tasks, tier, seed, nproc=None):
    nproc = nproc or min(16, os.cpu_count() or 4, max(1, len(tasks)))
    args = [(k, c, tier, seed) for (k, c) in tasks]
    if nproc == 1 or len(args) == 1: return [run_one(a) for a in args]
    ctx = mp.get_context('fork')
    with ctx.Pool(nproc, maxtasksperchild=1) as pool:          # a fresh process (fresh z3 context) per task: no cross-task solver state
        return pool.map(run_one, args, chunksize=1)


def feed(report, results, property_id):
    """turn task results into report entries.  A failed obligation is reported as a violation (replayed input when one is
    found, `no-failing-input-found` otherwise); leaving the supported subset is `undecided` (the native stand-in decides)."""
    crashed = [r for r in results if r['crash']]
    for r in results:
        report.add_function(r)
        site = r['function']
        if r['crash']:
            print('CHECKER-CRASH in %s/%s:\n%s' % (r['function'], r['cfg'], r['crash'])); continue
        v = r['violation']
        if v:
            if v['kind'] == 'no-input':
                report.violation(site, 'cfg=%s obligations=%s' % (r['cfg'], ','.join(v['obligations_failed'])),
                                 'proof obligation no longer discharged: %s' % v['obligations_failed'], {'kind': 'deductive', 'function': site, 'cfg': r['cfg'], **v}, no_input=True)
            else:
                f = v['failure']
                report.violation(site, 'cfg=%s array=%s' % (r['cfg'], f.get('array')),
                                 '%s: order %s observed %s expected %s (failed obligations: %s)' % (v['kind'], f.get('order'), f.get('observed'), f.get('expected'), v.get('obligations_failed')),
                                 {'kind': 'kernel', 'function': site, 'contract_key': r['key'], 'cfg': r['cfg'], **v})
        elif r['undecided']:
            report.undecide('%s[%s]' % (site, r['cfg']), r['undecided'] + (' ; bounded native stand-in passed (%d cells)' % r['native_cells'] if r['native_cells']
                            else ' ; no per-function native oracle: only the bounded engine of this property speaks for this function'))
    _coverage(report, results, property_id)
    return 3 if crashed else 0


COV_BASELINE = os.path.join(os.path.dirname(os.path.dirname(os.path.abspath(__file__))), 'coverage_baseline.json')

def unreached(results):
    """per function: statements (first source line) that the symbolic execution of NO configuration reached -- code that no obligation
    speaks about (a branch the executor decided away, an operand kind without a configuration)"""
    by = {}
    for r in results:
        c = r.get('cov')
        if not c or c[0] is None: continue
        f = by.setdefault(r['function'], {'visited': set(), 'stmts': {}})
        f['visited'] |= set(c[0]); f['stmts'].update({ln: txt for ln, txt in c[1]})
    return {fn: [t for ln, t in sorted(f['stmts'].items()) if ln not in f['visited']] for fn, f in by.items()}


def _coverage(report, results, property_id):
    """statements reached by no configuration are listed in the evidence; one that is NOT in the committed baseline of the pinned tree
    (coverage_baseline.json: pytpcore branches, object-array branches, `out is None` prologues, ...) is new code the proof is silent
    about: the function is reported UNDECIDED and its native stand-in is deepened (a failing input found there is a violation)"""
    try: base = json.load(open(COV_BASELINE)).get(property_id, {})
    except (OSError, ValueError): base = None
    un = unreached(results)
    report.extra['statements_reached_by_no_configuration'] = {fn: v for fn, v in un.items() if v}
    if base is None: return
    from lib import native
    reg = _registry()
    for fn, stmts in un.items():
        new = [t for t in stmts if t not in base.get(fn, [])]
        rs = [r for r in results if r['function'] == fn]
        if not new or any(r['undecided'] or r['violation'] or r['crash'] for r in rs): continue        # already handled by the rules above
        cells = 0; fail = None
        for r in rs:
            con = reg[r['key']]
            if type(con).oracle is __import__('vc.contract', fromlist=['Contract']).Contract.oracle: continue
            rng = random.Random(4242 + __import__('zlib').crc32((r['key'] + r['cfg']).encode()) % 10007)
            try:
                for D in ((7, 9, 12, 16, 24, 33) if not con.cell_shapes(r['cfg']) else (5, 6, 8, 11)):
                    for rep_ in range(3):
                        n, fail = native.check_kernel(con, r['cfg'], D, 2, (2,), rng); cells += n
                        if fail: break
                    if fail: break
            except NotImplementedError: continue
            if fail:
                report.violation(fn, 'cfg=%s array=%s' % (r['cfg'], fail.get('array')), 'native: order %s observed %s expected %s (code reached by no configuration of the contract: %s)' % (fail.get('order'), fail.get('observed'), fail.get('expected'), new[:3]),
                                 {'kind': 'kernel', 'function': fn, 'contract_key': r['key'], 'cfg': r['cfg'], 'failure': fail, 'obligations_failed': ['(statements reached by no configuration: %s)' % new[:3]]})
                break
        if not fail:
            report.undecide('%s[coverage]' % fn, 'statement(s) reached by no configuration of the contract, i.e. covered by no obligation: %s ; %s' % (new[:4], ('deepened native stand-in passed (%d cells)' % cells) if cells else 'no per-function native oracle'))


def _dp_one(args):
    """direction-parametricity of one function under contract: its symbolic execution with ONE generic direction index completes, i.e.
    every subscript of the batch axes is `:`, `...` or the direction loop variable, and no whole-array construct mixes directions"""
    key, cfg = args
    from vc.contract import generate, Undecided
    reg = _registry(); con = reg[key]
    D = (con.bounded_D[-1] if getattr(con, 'bounded_D', None) else None)
    try:
        generate(con, cfg, reg, REPO, D)
        return {'function': con.qual, 'cfg': cfg, 'verdict': 'holds', 'detail': 'symbolic execution with a generic direction index completed (all batch subscripts are `:`, `...` or the direction loop variable)'}
    except Undecided as e:
        return {'function': con.qual, 'cfg': cfg, 'verdict': 'undecided', 'detail': str(e)[:200]}
    except Exception as e:
        return {'function': con.qual, 'cfg': cfg, 'verdict': 'undecided', 'detail': 'construct outside the executor\'s subset (%s)' % type(e).__name__}


def dp_scan(tasks, nproc=None):
    nproc = nproc or min(16, os.cpu_count() or 4, max(1, len(tasks)))
    ctx = mp.get_context('fork')
    with ctx.Pool(nproc, maxtasksperchild=8) as pool:
        return pool.map(_dp_one, list(tasks), chunksize=4)
