"""Entry point: ./check <ID> [--tier quick|thorough] [--replay FILE]"""
import sys, os, importlib, traceback, argparse, json
VERIF = os.path.dirname(os.path.dirname(os.path.abspath(__file__)))
sys.path.insert(0, VERIF)


def main():
    ap = argparse.ArgumentParser()
    ap.add_argument('pid'); ap.add_argument('--tier', default=os.environ.get('VERIF_TIER', 'quick'), choices=['quick', 'thorough'])
    ap.add_argument('--replay'); ap.add_argument('--selftest', action='store_true')
    a = ap.parse_args()
    seed = int(os.environ.get('VERIF_SEED', '0') or 0)
    try:
        if a.replay:
            from lib import replay
            return replay.run(a.pid, a.replay)
        mod = importlib.import_module('props.' + a.pid)
        from lib.report import Report
        rep = Report(a.pid, a.tier, seed, mod.LEVEL)
        rc = mod.run(rep, a.tier, seed) or 0
        code = rep.finish()
        if rc == 3 and code == 0: return 3
        return code
    except SystemExit: raise
    except Exception:
        traceback.print_exc()
        print('CHECKER-CRASH (exit 3): this is a bug in /verif, not a verdict about /repo')
        return 3


if __name__ == '__main__':
    sys.exit(main())
