"""Native execution of the REAL functions of /repo (replay of counterexamples, bounded stand-ins, CPython cross-check)."""
import os, sys, itertools, inspect, math, random
REPO = os.environ.get('ALGOPY_REPO', '/repo')
_alg = None


def algopy():
    global _alg
    if _alg is None:
        if REPO not in sys.path: sys.path.insert(0, REPO)
        for k in [k for k in sys.modules if k == 'algopy' or k.startswith('algopy.')]: del sys.modules[k]
        import warnings; warnings.filterwarnings('ignore')
        import algopy as a
        assert os.path.realpath(a.__file__).startswith(os.path.realpath(REPO) + '/'), 'imported algopy from %s, not from %s' % (a.__file__, REPO)
        import algopy.utpm.algorithms as alg
        assert alg.pytpcore is None, 'pytpcore present: the numpy branches verified here are not the ones that run (assumption A10)'
        _alg = a
    return _alg


def resolve(contract):
    a = algopy()
    q = contract.qual
    if q.startswith('RawAlgorithmsMixIn.'): return getattr(a.UTPM, q.split('.', 1)[1])
    if q.startswith('UTPM.'): return getattr(a.UTPM, q.split('.', 1)[1])
    mod = __import__('importlib').import_module(contract.file[:-3].replace('/', '.'))
    obj = mod
    for part in q.split('.'): obj = getattr(obj, part)
    return obj


def rnd(rng, lo=-1.0, hi=1.0, den=16):
    return round(rng.uniform(lo, hi) * den) / den


def make_inputs(contract, cfgname, D, P, shape, rng, cell0=None, dtype=float, layout_rng=None):
    """numpy arrays for all array parameters (aliased parameters share one object).  cell0: optional dict
    name -> list of D numbers placed at batch position 0 (a solver counter-model)."""
    import numpy
    cfg = contract.cfgs[cfgname]; alias = cfg.get('alias', {})
    arrs = {}
    for a in contract.arrays:
        root = a.split('.')[0]
        if root in cfg and cfg[root] is None: continue
        tgt = alias.get(a, a)
        if tgt != a and tgt in arrs: arrs[a] = arrs[tgt]; continue
        cs = contract.cell_shapes(cfgname).get(a)
        x = numpy.zeros((D, P) + (tuple(shape) if cs is None else tuple(cs)), dtype=dtype)
        it = numpy.nditer(x[0], flags=['multi_index'])
        for _ in it:
            pos = it.multi_index
            col = [rnd(rng) for _ in range(D)]
            sparse = rng.random()
            if sparse < 0.15: col = [c if rng.random() < 0.5 else 0.0 for c in col]
            col[0] = contract.sample_x0(a, rng)
            if dtype is complex: col = [complex(c, rnd(rng) * (0.5 if k else 0.1)) for k, c in enumerate(col)]
            for d in range(D): x[(d,) + pos] = col[d]
        # structured sparsity: a whole Taylor order vanishing in every direction and element (gaps), or only low orders present
        u = rng.random()
        if D >= 3 and u < 0.2: x[rng.randrange(1, D - 1)] = 0
        elif D >= 3 and u < 0.3: x[2:] = 0
        elif D >= 2 and u < 0.35: x[1:] = 0
        if cell0 and a in cell0:
            pos0 = (0,) * (x.ndim - 1)
            for d in range(D): x[(d,) + pos0] = cell0[a][d]
        contract.native_init(a, x, cfgname)
        # memory layout must not matter: a good part of the arrays are handed over as NON-CONTIGUOUS views (the tracer does this for
        # the adjoints of transposed / sliced nodes); `reshape` of such a view silently copies
        if layout_rng is not None and layout_rng.random() < 0.45: x = _noncontig(x, layout_rng)
        arrs[a] = x
    return arrs


def _noncontig(x, rng):
    import numpy
    mode = rng.choice(['p-stride', 'last-stride', 'swapped']) if x.ndim >= 4 else (rng.choice(['p-stride', 'last-stride']) if x.ndim == 3 else 'p-stride')
    if mode == 'p-stride': big = numpy.zeros((x.shape[0], 2 * x.shape[1]) + x.shape[2:], dtype=x.dtype); v = big[:, ::2]
    elif mode == 'last-stride': big = numpy.zeros(x.shape[:-1] + (2 * x.shape[-1],), dtype=x.dtype); v = big[..., ::2]
    else: big = numpy.zeros(x.shape[:-2] + (x.shape[-1], x.shape[-2]), dtype=x.dtype); v = numpy.swapaxes(big, -1, -2)
    v[...] = x
    return v


def call(contract, cfgname, arrs, scal):
    """call the real function; returns (post arrays dict incl. 'ret', pre copies)"""
    import numpy
    f = resolve(contract)
    pre = {k: v.copy() for k, v in arrs.items()}
    sig = [p for p in inspect.signature(f).parameters]
    kwargs = {}
    cfg = contract.cfgs[cfgname]
    U = algopy().UTPM
    objs = set(getattr(contract, 'objs', ())); objtuples = getattr(contract, 'objtuples', {})
    for p in sig:
        if p in objs and (p + '.data') in arrs:                     # object parameters: UTPM instances wrapping the generated arrays (no copy)
            kwargs[p] = U(arrs[p + '.data']); continue
        if p in objtuples:
            if p in cfg and cfg[p] is None: kwargs[p] = None
            else: kwargs[p] = tuple(U(arrs['%s.%d.data' % (p, i)]) for i in range(objtuples[p]))
            continue
        if p in contract.tuples:
            if p in cfg and cfg[p] is None: kwargs[p] = None
            else: kwargs[p] = tuple(arrs['%s.%d' % (p, i)] for i in range(contract.tuples[p]))
        elif p in arrs: kwargs[p] = arrs[p]
        elif p in contract.arrays: kwargs[p] = None
        elif p in scal: kwargs[p] = scal[p]
        elif p in contract.scalars and (cfg.get(p, contract.scalars[p]) in (None, 'none')): kwargs[p] = None
        else: raise RuntimeError('no native value for parameter %s of %s' % (p, contract.qual))
    with numpy.errstate(all='ignore'):
        ret = f(**kwargs)
    post = dict(arrs); post['ret'] = ret
    return post, pre


def cells(x):
    """iterate batch positions of an array of shape (D,P)+shp: yields (pos, list of D values)"""
    import numpy
    it = numpy.ndindex(*x.shape[1:])
    for pos in it: yield pos, [x[(d,) + pos] for d in range(x.shape[0])]


def close(a, b, scale=1.0, tol=1e-8):
    try:
        if isinstance(a, complex) or isinstance(b, complex) or hasattr(a, 'imag') and getattr(a, 'imag', 0) != 0:
            return abs(complex(a) - complex(b)) <= tol * max(1.0, abs(complex(b)), scale)
        a = float(a); b = float(b)
    except (TypeError, ValueError): return False
    if math.isnan(b) or math.isinf(b): return None       # the oracle itself is outside the domain: not a verdict
    if math.isnan(a) or math.isinf(a): return False      # nan/inf where a finite coefficient is expected
    return abs(a - b) <= tol * max(1.0, abs(b), scale)


def check_kernel(contract, cfgname, D, P, shape, rng, cell0=None, scal=None, dtype=float):
    """run the real kernel once on generated inputs and compare every batch cell with the oracle.
    returns (n_cells_checked, failure or None); failure = dict(input, observed, expected, ...)"""
    import numpy
    scal = dict(scal) if scal is not None else contract.native_scalars(cfgname, rng)
    import random as _random
    arrs = make_inputs(contract, cfgname, D, P, shape, rng, cell0, dtype, layout_rng=_random.Random(rng.random()))
    post, pre = call(contract, cfgname, arrs, scal)
    n = 0
    first = next(iter(pre.values()))
    matrix_cells = bool(contract.cell_shapes(cfgname))
    for pos in (numpy.ndindex(*first.shape[1:]) if not matrix_cells else numpy.ndindex(P)):
        inp = {k: [v[(d,) + pos] for d in range(D)] for k, v in pre.items()}
        try: exp = contract.oracle(inp, scal, cfgname)
        except (ZeroDivisionError, ValueError, OverflowError): continue
        for name, want in exp.items():
            if name == 'ret':
                got_arr = post['ret']
            elif name.startswith('ret.'):
                got_arr = post['ret'][int(name[4:])]
            else: got_arr = post[name]
            got = [got_arr[(d,) + pos] for d in range(D)]
            if matrix_cells:
                scale = max([float(numpy.abs(w).max()) if numpy.size(w) else 0.0 for w in want] + [1.0]); bad = None
                for d in range(D):
                    if not numpy.all(numpy.isfinite(want[d])): break
                    if numpy.shape(got[d]) != numpy.shape(want[d]) or not numpy.allclose(got[d], want[d], rtol=1e-8, atol=1e-8 * scale): bad = d; break
                if bad is not None:
                    return n, {'function': contract.qual, 'cfg': cfgname, 'D': D, 'P': P, 'position': list(pos), 'array': name, 'order': bad,
                               'observed': numpy.asarray(got[bad]).tolist(), 'expected': numpy.asarray(want[bad]).tolist(), 'inputs_full': {k: v.tolist() for k, v in pre.items()}, 'scalars': {k: numpy.asarray(v).tolist() for k, v in scal.items() if not callable(v)}}
                n += 1; continue
            scale = max([abs(complex(w)) for w in want] + [1.0])
            for d in range(D):
                ok = close(got[d], want[d], scale)
                if ok is None: break
                if not ok:
                    return n, {'function': contract.qual, 'cfg': cfgname, 'D': D, 'P': P, 'shape': list(shape), 'position': list(pos), 'array': name, 'order': d,
                               'observed': repr(got[d]), 'expected': repr(want[d]), 'dtype': str(dtype.__name__),
                               'input': {k: [repr(t) for t in v] for k, v in inp.items()}, 'scalars': {k: repr(v) for k, v in scal.items() if not callable(v)},
                               'inputs_full': {k: v.tolist() if dtype is not complex else [[repr(c) for c in row] for row in v.reshape(D, -1)] for k, v in pre.items()}}
            n += 1
        # frame: parameters that must not change
        for a in contract._frame_params(cfgname):
            if a in pre and not numpy.array_equal(pre[a], post[a], equal_nan=True):
                return n, {'function': contract.qual, 'cfg': cfgname, 'D': D, 'P': P, 'shape': list(shape), 'array': a, 'observed': 'operand modified', 'expected': 'unchanged',
                           'inputs_full': {k: v.tolist() for k, v in pre.items()} if dtype is not complex else {}}
    # frames once more on GENERIC floating-point values: the generated coefficients are dyadic rationals (exact arithmetic for the value
    # comparison), on which an operand that is scaled in place and scaled back comes out bit-identical
    if cell0 is None and dtype is float and contract._frame_params(cfgname):
        try:
            arrs2 = make_inputs(contract, cfgname, D, P, shape, rng, None, dtype, layout_rng=_random.Random(rng.random()))
            seen = set()
            for v in arrs2.values():
                if isinstance(v, numpy.ndarray) and v.dtype.kind == 'f':
                    b = v
                    while getattr(b, 'base', None) is not None: b = b.base
                    if id(b) in seen: continue
                    seen.add(id(b)); b *= (1.0 + numpy.array([rng.random() for _ in range(b.size)]).reshape(b.shape) / 9.0)
            post2, pre2 = call(contract, cfgname, arrs2, scal)
            for a in contract._frame_params(cfgname):
                if a in pre2 and not numpy.array_equal(pre2[a], post2[a], equal_nan=True):
                    return n, {'function': contract.qual, 'cfg': cfgname, 'D': D, 'P': P, 'shape': list(shape), 'array': a, 'observed': 'operand modified (generic floating-point values, max change %.3g)' % float(numpy.nanmax(numpy.abs(pre2[a] - post2[a]))),
                               'expected': 'unchanged', 'inputs_full': {k: v.tolist() for k, v in pre2.items()}}
        except (ZeroDivisionError, ValueError, OverflowError, FloatingPointError): pass
    return n, None
