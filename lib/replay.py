"""./check <ID> --replay <file>: re-execute a recorded violation against the CURRENT /repo tree.

The checks are deterministic for a given (tier, VERIF_SEED) -- PYTHONHASHSEED is fixed by ./check, every random choice comes from
seeded generators -- so the faithful replay of a recorded violation is: run the same check again with the recorded tier and seed and
look for the same (site, input class).  For a violation of a function under contract that carries a concrete failing cell, the cell is
first replayed directly against the real function (fast path).  Exit 1 + a VIOLATION line if it reproduces, exit 0 if it does not."""
import json, os, sys, importlib, ast


def _literal(v):
    try: return ast.literal_eval(v.replace('np.float64(', '(').replace('np.complex128(', '(').replace('np.int64(', '('))
    except Exception: return None


def _kernel_fast_path(doc):
    """returns True (reproduced) / False (does not reproduce) / None (no direct replay possible)"""
    f = doc.get('failure')
    if doc.get('kind') != 'kernel' or not isinstance(f, dict) or not isinstance(f.get('input'), dict) or 'contract_key' not in doc: return None
    from contracts import registry
    from lib import native
    import random
    con = registry.ALL.get(doc['contract_key'])
    if con is None or con.cell_shapes(doc['cfg']): return None
    cell0 = {}
    for k, vals in f['input'].items():
        col = [_literal(v) for v in vals]
        if any(c is None or isinstance(c, (list, tuple)) for c in col): return None
        cell0[k] = col
    scal = {}
    for k, v in (f.get('scalars') or {}).items():
        lv = _literal(v)
        if lv is None: return None
        scal[k] = lv
    rng = random.Random(0)
    try:
        n, fail = native.check_kernel(con, doc['cfg'], int(f['D']), 1, (), rng, cell0=cell0, scal=dict(con.native_scalars(doc['cfg'], rng), **scal))
    except Exception as e:
        print('direct replay raised %s: %s' % (type(e).__name__, str(e)[:200])); return None
    return fail is not None


def run(pid, path):
    doc = json.load(open(path))
    if doc.get('property') != pid:
        print('replay file belongs to property %s, not %s' % (doc.get('property'), pid)); return 3
    print('replaying %s: site=%s class=%s' % (path, doc.get('site'), doc.get('class')))
    r = _kernel_fast_path(doc)
    if r is True:
        print('the recorded failing cell reproduces against the real function')
        print('VIOLATION property=%s replay=%s' % (pid, path)); return 1
    if r is False: print('the recorded failing cell no longer fails; re-running the check that produced it')
    from lib.report import Report
    os.environ['VERIF_SEED'] = str(doc.get('seed', 0))
    mod = importlib.import_module('props.' + pid)
    rep = Report(pid, doc.get('tier', 'quick'), int(doc.get('seed', 0)), mod.LEVEL)
    rep.replaying = True
    mod.run(rep, doc.get('tier', 'quick'), int(doc.get('seed', 0)))
    hit = [v for v in rep.violations if v['site'] == doc.get('site') and v['class'] == doc.get('class')]
    same_site = [v for v in rep.violations if v['site'] == doc.get('site')]
    if hit or same_site:
        v = (hit or same_site)[0]
        print('reproduced on the current tree: %s' % v['detail'][:300])
        print('VIOLATION property=%s replay=%s%s' % (pid, path, ' no-failing-input-found' if v.get('no_input') else '')); return 1
    print('not reproduced on the current tree (check re-run with tier=%s seed=%s: no violation at this site)' % (doc.get('tier', 'quick'), doc.get('seed', 0)))
    return 0
