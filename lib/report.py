"""Evidence / verdict bookkeeping shared by all property checks.

Exit codes: 0 held on everything explored (possibly with KNOWN-FINDING / UNDECIDED lines), 1 violation, 3 checker crash."""
import json, os, sys, time, fnmatch, hashlib

VERIF = os.path.dirname(os.path.dirname(os.path.abspath(__file__)))
REPO = os.environ.get('ALGOPY_REPO', '/repo')


def load_known():
    p = os.path.join(VERIF, 'known_findings.json')
    if not os.path.exists(p): return []
    return json.load(open(p)).get('findings', [])


class Report:
    def __init__(self, pid, tier, seed, claimed_level):
        self.pid, self.tier, self.seed, self.claimed = pid, tier, seed, claimed_level
        self.t0 = time.time()
        self.functions = []          # deductive results per (function, cfg)
        self.structural = []         # structural obligations (AST engines)
        self.violations = []; self.known_hits = []; self.undecided = []
        self.bounded = []            # bounded stand-in blocks: dict(name, evaluations, distinct, rule, samples, bound)
        self.assumptions = []; self.trusted = []
        self.notes = []
        self.known = [k for k in load_known() if k.get('property') == pid]
        self.extra = {}

    # ---------------------------------------------------------------- recording
    def add_function(self, res): self.functions.append(res)
    def add_structural(self, name, verdict, detail='', backend='AST'):
        self.structural.append({'name': name, 'verdict': verdict, 'detail': detail, 'backend': backend})
    def add_bounded(self, name, evaluations, distinct, rule, samples, bound):
        self.bounded.append({'name': name, 'evaluations': int(evaluations), 'distinct_nontrivial': int(distinct), 'rule': rule,
                             'samples': samples[:5], 'bound': bound})
    def assume(self, *a): self.assumptions += [x for x in a if x not in self.assumptions]
    def trust(self, *a): self.trusted += [x for x in a if x not in self.trusted]

    def violation(self, site, klass, detail, payload, no_input=False):
        """site: function / call site; klass: minimal input class (used to match known findings)"""
        for k in self.known:
            if k.get('status', 'open') != 'open': continue
            if k.get('site') == site and (klass in k['classes'] if 'classes' in k else fnmatch.fnmatch(klass, k.get('class', '*'))):
                if k['id'] not in [h['id'] for h in self.known_hits]:
                    self.known_hits.append({'id': k['id'], 'site': site, 'class': klass, 'what': k.get('what', detail)})
                return False
        key = (site, klass)
        if key in [(v['site'], v['class']) for v in self.violations]: return True
        os.makedirs(os.path.join(VERIF, 'replays'), exist_ok=True)
        h = hashlib.sha1(json.dumps([self.pid, site, klass], sort_keys=True).encode()).hexdigest()[:10]
        path = os.path.join('replays', '%s_%s.json' % (self.pid, h))
        doc = {'property': self.pid, 'site': site, 'class': klass, 'detail': detail, 'no_failing_input_found': bool(no_input), 'tier': self.tier, 'seed': int(self.seed)}
        doc.update(payload)
        json.dump(doc, open(os.path.join(VERIF, path), 'w'), indent=1, default=str)
        self.violations.append({'site': site, 'class': klass, 'detail': detail, 'replay': path, 'no_input': bool(no_input)})
        return True

    def undecide(self, name, reason): self.undecided.append({'obligation': name, 'reason': reason})

    # ---------------------------------------------------------------- finishing
    def finish(self):
        obligations = discharged = 0; solver_s = 0.0; funcs = []
        for f in self.functions:
            n = len(f['obligations']); k = sum(1 for o in f['obligations'] if o['verdict'] == 'unsat')
            if f.get('undecided'): n = max(n, 1)
            obligations += n; discharged += k; solver_s += sum(o['seconds'] for o in f['obligations'])
            funcs.append({'function': f['function'], 'cfg': f['cfg'], 'sha256': f.get('sha'), 'obligations': n, 'discharged': k,
                          'undecided': f.get('undecided'), 'bounded_in_D': f.get('bounded_in_D'), 'wall_s': f.get('wall_s'), 'solver_s': round(sum(o['seconds'] for o in f['obligations']), 2),
                          'failed': [o['name'] for o in f['obligations'] if o['verdict'] != 'unsat']})
        for s in self.structural:
            if s['verdict'] in ('skipped', 'no-pullback'): continue          # not an obligation: the recording site cannot run / has no pullback (a raising sweep is allowed)
            obligations += 1; discharged += 1 if s['verdict'] == 'holds' else 0
        bd = [f for f in self.functions if f.get('bounded_in_D')]
        if bd:
            self.add_bounded('unrolled symbolic execution (bounded in D, symbolic in all coefficient values)',
                             sum(f['bounded_in_D']['obligations'] for f in bd), sum(len(f['bounded_in_D']['D']) for f in bd),
                             'for each listed D the real function is executed symbolically with all loops unrolled and every obligation (postcondition = spec interpreter run on solver terms, frames, callee preconditions, index bounds) is discharged by z3: complete for that D and all values; distinct = (function, cfg, D)',
                             [{'function': f['function'], 'cfg': f['cfg'], **f['bounded_in_D']} for f in bd[:3]], 'D in %s' % sorted(set(d for f in bd for d in f['bounded_in_D']['D'])))
        ev = sum(b['evaluations'] for b in self.bounded); dn = sum(b['distinct_nontrivial'] for b in self.bounded)
        level = self.claimed
        if level == 'proof' and (obligations == 0 or discharged < obligations or any(u['obligation'].endswith('[coverage]') for u in self.undecided)): level = 'other'      # code no obligation speaks about: not a proof of this tree
        cov = {'obligations': obligations, 'discharged': discharged,
               'checker_cmd': './check %s --tier %s' % (self.pid, self.tier),
               'trusted_base': self.trusted,
               'evaluations': ev, 'distinct_nontrivial': dn,
               'rule': ' | '.join('%s: %s [bound: %s]' % (b['name'], b['rule'], b['bound']) for b in self.bounded) or 'no bounded part',
               'samples': [{'block': b['name'], 'sample': s} for b in self.bounded for s in b['samples'][:2]] or
                          [{'obligation': o['name'], 'function': f['function']} for f in self.functions[:3] for o in f['obligations'][:2]],
               'explanation': self.extra.get('explanation', ''),
               'functions_under_contract': funcs,
               'structural_obligations': self.structural,
               'bounded_standin': self.bounded,
               'undecided': self.undecided,
               'known_findings_hit': self.known_hits,
               'solver_seconds': round(solver_s, 2),
               'backends': sorted(set(o.get('backend', 'z3') for f in self.functions for o in f['obligations']) | set(s['backend'] for s in self.structural)),
               'notes': self.notes}
        cov.update({k: v for k, v in self.extra.items() if k != 'explanation'})
        doc = {'property_id': self.pid, 'tier': self.tier, 'seed': int(self.seed), 'level': level, 'coverage': cov,
               'assumptions': self.assumptions, 'wall_s': round(time.time() - self.t0, 2), 'violations': len(self.violations)}
        # self-test runs against scratch trees (selftest/*.sh) must not overwrite the evidence of the real tree
        evdir = os.environ.get('VERIF_EVIDENCE_DIR') or os.path.join(VERIF, 'evidence')
        os.makedirs(evdir, exist_ok=True)
        json.dump(doc, open(os.path.join(evdir, self.pid + '.json'), 'w'), indent=1, default=str)
        for h in self.known_hits: print('KNOWN-FINDING: property=%s %s [%s] %s' % (self.pid, h['id'], h['site'], h['what']))
        for u in self.undecided: print('UNDECIDED obligation=%s reason=%s' % (u['obligation'], u['reason']))
        for v in self.violations:
            print('VIOLATION property=%s replay=%s%s' % (self.pid, v['replay'], ' no-failing-input-found' if v['no_input'] else ''))
            print('   site=%s class=%s : %s' % (v['site'], v['class'], v['detail']))
        print('%s tier=%s level=%s obligations=%d discharged=%d bounded_evaluations=%d violations=%d known=%d undecided=%d wall=%.1fs' % (
            self.pid, self.tier, level, obligations, discharged, ev, len(self.violations), len(self.known_hits), len(self.undecided), time.time() - self.t0))
        return 1 if self.violations else 0
