"""SIG -- pullback signature conformance (DESIGN 7.1).  Obligations are derived from the real AST of
algopy/tracer/tracer.py on every run: every recording site Function.pushforward(f, [a1..an], Fkwargs=..) must find a
UTPM.pb_<f.__name__> whose positional parameters are (k output bars, a1..an, k outputs) -- Function.pullback calls it so."""
import ast, inspect, operator, os
from lib import native


def recording_sites(repo):
    src = open(os.path.join(repo, 'algopy/tracer/tracer.py')).read(); tree = ast.parse(src)
    sites = []
    for cls in [n for n in tree.body if isinstance(n, ast.ClassDef) and n.name == 'Function']:
        for fn in [n for n in cls.body if isinstance(n, ast.FunctionDef)]:
            for call in [n for n in ast.walk(fn) if isinstance(n, ast.Call)]:
                if ast.unparse(call.func) in ('Function.pushforward', 'cls.pushforward') and len(call.args) >= 2 and isinstance(call.args[1], ast.List):
                    kw = {k.arg: k.value for k in call.keywords}
                    fk = []
                    if 'Fkwargs' in kw and isinstance(kw['Fkwargs'], ast.Dict): fk = [k.value for k in kw['Fkwargs'].keys]
                    sites.append({'method': fn.name, 'lineno': call.lineno, 'func_expr': ast.unparse(call.args[0]),
                                  'args': [ast.unparse(a) for a in call.args[1].elts], 'fkwargs': fk})
    return sites


def check(repo):
    """returns list of dict(name, verdict in holds/fails/no-pullback/skipped, detail)"""
    a = native.algopy()
    out = []
    for s in recording_sites(repo):
        name = 'SIG/%s@%d' % (s['method'], s['lineno'])
        try: f = eval(s['func_expr'], {'algopy': a, 'operator': operator})
        except Exception as e:
            out.append({'name': name, 'verdict': 'skipped', 'detail': 'cannot resolve %s natively (%s): the call site itself cannot run' % (s['func_expr'], type(e).__name__)}); continue
        pb = getattr(a.UTPM, 'pb_' + f.__name__, None)
        if pb is None:
            out.append({'name': name, 'verdict': 'no-pullback', 'detail': 'no UTPM.pb_%s: the sweep raises (allowed by the property)' % f.__name__}); continue
        params = [p for p in inspect.signature(pb).parameters.values()]
        pos = [p.name for p in params if p.default is inspect.Parameter.empty and p.kind in (p.POSITIONAL_OR_KEYWORD, p.POSITIONAL_ONLY)]
        kws = [p.name for p in params if p.default is not inspect.Parameter.empty]
        has_var = any(p.kind in (p.VAR_POSITIONAL, p.VAR_KEYWORD) for p in params)
        n = len(s['args'])
        if has_var:
            out.append({'name': name, 'verdict': 'holds', 'detail': 'pb_%s takes *args' % f.__name__}); continue
        if 'out' not in kws:
            out.append({'name': name, 'verdict': 'fails', 'detail': 'pb_%s has no out= keyword' % f.__name__}); continue
        extra = len(pos) - n
        ok = extra >= 0 and extra % 2 == 0
        detail = 'pb_%s%s vs recorded args %s' % (f.__name__, tuple(pos), s['args'])
        if ok:
            k = extra // 2
            for i, argname in enumerate(s['args']):
                if argname in pos and argname not in ('self', 'x', 'lhs', 'rhs') and pos.index(argname) != k + i: ok = False
            for kwname in s['fkwargs']:
                if kwname not in kws: ok = False
            # an `out`-like recorded argument must not be confused with an output slot
            tail = pos[k + n:]
            if any(t.startswith('out') for t in tail): ok = False
        out.append({'name': name, 'verdict': 'holds' if ok else 'fails', 'detail': detail, 'func': f.__name__})
    return out
