#!/bin/sh
# usage: run_all_seeds.sh [jobs]   -- re-evaluates every seeded change under /verif/seeded (bugs must give a VIOLATION, harmless refactorings none)
cd /verif
J="${1:-4}"
OUT=/tmp/seed_eval; rm -rf $OUT; mkdir -p $OUT
for d in seeded/*/; do
  n=$(basename $d)
  prop=$(python3 -c "import json,sys; m=json.load(open('$d/meta.json')); print(m.get('property',''))")
  case "$n" in
    R*) echo "./selftest/eval_refactor.sh /verif/$d $n C01 C02 C03 C07 C12 C14 > $OUT/$n.txt 2>&1" ;;
    *)  echo "./selftest/eval_seed.sh /verif/$d $prop quick > $OUT/$n.txt 2>&1" ;;
  esac
done | xargs -P $J -I{} sh -c "{}"
for f in $OUT/*.txt; do
  n=$(basename $f .txt); v=$(grep -c "^VIOLATION" $f); c=$(grep -c "CHECKER-CRASH" $f)
  case "$n" in
    R*) if grep -q "PATCH DOES NOT APPLY" $f; then echo "STALE $n (patch does not apply to the current tree)"; elif [ "$v" = 0 ] && [ "$c" = 0 ]; then echo "ok    $n (no alarm)"; else echo "ALARM $n violations=$v crashes=$c"; fi ;;
    *)  if grep -q "PATCH DOES NOT APPLY" $f; then echo "STALE $n (patch does not apply to the current tree)"; elif [ "$v" != 0 ]; then echo "ok    $n (violations=$v)"; else echo "MISS  $n"; fi ;;
  esac
done
