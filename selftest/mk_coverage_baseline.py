"""Writes coverage_baseline.json: per property and function under contract, the statements of the PINNED tree that the symbolic
execution of no configuration reaches (pytpcore branches, object-array branches, `out is None` prologues of the pullback wrappers,
operand kinds handled by the bounded engine only).  lib/deductive._coverage reports any unreached statement that is not listed here.
Run on the unchanged tree only:  PYTHONPATH=/verif python3-vt selftest/mk_coverage_baseline.py"""
import sys, os, json
sys.path.insert(0, os.path.dirname(os.path.dirname(os.path.abspath(__file__))))
from lib import deductive
from contracts import registry
out = {}
for pid in ['C%02d' % i for i in range(1, 18)]:
    try: tasks = registry.tasks_for(pid)
    except Exception: tasks = []
    if not tasks: continue
    res = deductive.run_tasks(tasks, 'quick', 1)
    un = {fn: v for fn, v in deductive.unreached(res).items() if v}
    out[pid] = un
    print(pid, len(tasks), 'tasks,', len(un), 'functions with unreached statements')
json.dump(out, open(deductive.COV_BASELINE, 'w'), indent=1, sort_keys=True)
