#!/bin/sh
# usage: eval_seed.sh <dir with patch.diff, demo_*.py, meta.json> <property id> [tier] [more property ids...]
# Confirms the seeded change in a fresh scratch worktree of /repo (outside /repo and /verif), then runs the /verif check(s) on it.
SRC="$1"; PID="$2"; TIER="${3:-quick}"; if [ $# -ge 3 ]; then shift 3; else shift $#; fi
EV=/tmp/ev_$(basename $SRC)_$PID
git -C /repo worktree remove --force $EV >/dev/null 2>&1; rm -rf $EV
git -C /repo worktree add -q --detach $EV HEAD || exit 2
cp $(ls $SRC/demo*.py | head -1) $EV/_demo.py; DEMO=$EV/_demo.py
cd $EV
echo "--- demo on the unchanged tree"; PYTHONPATH=$EV /venv/bin/python $DEMO >/dev/null 2>&1; echo "exit=$?"
git apply $SRC/patch.diff || { echo "PATCH DOES NOT APPLY"; exit 2; }
echo "--- test suite with the change"; /venv/bin/python -m pytest -q -p no:cacheprovider --timeout=900 --continue-on-collection-errors 2>&1 | tail -1
echo "--- demo with the change"; PYTHONPATH=$EV /venv/bin/python $DEMO 2>&1 | tail -3; PYTHONPATH=$EV /venv/bin/python $DEMO >/dev/null 2>&1; echo "exit=$?"
cd /verif
for P in $PID "$@"; do
  echo "--- ./check $P --tier $TIER on the changed tree"
  VERIF_EVIDENCE_DIR=/tmp/ev_evidence_$$ ALGOPY_REPO=$EV ./check $P --tier $TIER 2>&1 | grep -E "VIOLATION|KNOWN|UNDECIDED|CRASH|tier=" | cut -c1-400 | head -12
done
git -C /repo worktree remove --force $EV; rm -rf $EV /tmp/ev_evidence_$$
