#!/bin/sh
# usage: eval_refactor.sh <dir with patch.diff> <name> <property ids...> : a behaviour-preserving patch must NOT raise a VIOLATION
SRC="$1"; NAME="$2"; shift 2
EV=/tmp/ev_$NAME
git -C /repo worktree remove --force $EV >/dev/null 2>&1; rm -rf $EV
git -C /repo worktree add -q --detach $EV HEAD || exit 2
cd $EV && git apply $SRC/patch.diff || { echo "PATCH DOES NOT APPLY"; exit 2; }
echo "--- test suite with the refactoring"; /venv/bin/python -m pytest -q -p no:cacheprovider --timeout=900 --continue-on-collection-errors 2>&1 | tail -1
cd /verif
for P in "$@"; do
  echo "--- ./check $P on the refactored tree"
  VERIF_EVIDENCE_DIR=/tmp/ev_evidence_$$ ALGOPY_REPO=$EV ./check $P 2>&1 | grep -E "VIOLATION|site=|UNDECIDED|CRASH|tier=" | cut -c1-330 | head -14
done
git -C /repo worktree remove --force $EV; rm -rf $EV /tmp/ev_evidence_$$
