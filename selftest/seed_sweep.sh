#!/bin/sh
# usage: seed_sweep.sh "<seeds>" [tier]   -- every check on the unchanged tree for several VERIF_SEED values: no VIOLATION, exit 0 expected
cd /verif
TIER="${2:-quick}"
for s in $1; do
  for p in C01 C02 C03 C04 C05 C06 C07 C08 C09 C10 C11 C12 C13 C14 C15 C16 C17; do
    out=$(VERIF_EVIDENCE_DIR=/tmp/sweep_evidence VERIF_SEED=$s ./check $p --tier $TIER 2>&1); rc=$?
    v=$(echo "$out" | grep -c "^VIOLATION"); u=$(echo "$out" | grep -c "^UNDECIDED")
    if [ $rc != 0 ] || [ $v != 0 ] || [ $u != 0 ]; then echo "seed=$s $p rc=$rc violations=$v undecided=$u"; echo "$out" | grep -E "VIOLATION|site=|UNDECIDED|CRASH|Error" | cut -c1-300 | head -6; fi
  done
  echo "seed $s done"
done
