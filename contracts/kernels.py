"""Sidecar contracts for the Taylor-coefficient kernels of algopy/utpm/algorithms.py (DESIGN Appendix A.1/A.2).

Postconditions are the property statements (C01/C02) expressed with the spec functions of contracts/spec.py;
loop invariants come from the code.  Aliasing configurations are the ones found at the call sites in /repo
(checked by structural/callsites.py)."""
import z3
from vc.contract import Contract, scalar_of
from vc.engine import Undecided, Cell, IntV
from . import spec as S
from .spec import toR
from bounded import specinterp as SI

REG = {}          # simple callee name -> contract instance (what `cls._name(...)` resolves to)
def register(cls):
    inst = cls(); REG[inst.qual.split('.')[-1]] = inst; return cls

A = lambda n: 'RawAlgorithmsMixIn.' + n


# ---------------------------------------------------------------------------------------------- ring operations
@register
class Mul(Contract):
    qual = A('_mul'); arrays = ('x_data', 'y_data', 'out'); modifies = ('out',); returns = 'out'
    cfgs = {'distinct': {}, 'out_is_y': {'alias': {'out': 'y_data'}}, 'x_is_y': {'alias': {'y_data': 'x_data'}},
            'out_none': {'out': None}, 'out_is_x': {'alias': {'out': 'x_data'}}}
    property_ids = ('C02', 'C14', 'C12')
    def ensures(self, c):
        x, y = c.pre['x_data'], c.pre['y_data']; o = c.outarr()
        return [('out[d] = sum_k x[k] y[d-k]', c.forall(0, c.D, lambda j: o[j] == S.CONV(x, y, j)))]
    def spec_instances(self, c, n): return S.conv_def(c, c.pre['x_data'], c.pre['y_data'], n)
    def invariants(self):
        def inv0(c, d):       # descending: orders > d final, orders <= d of the output buffer still hold entry values
            x, y = c.pre['x_data'], c.pre['y_data']; o = c.local('z_data'); ob = c.local_base('z_data')
            o0 = c.entry_of(ob)
            return [c.forall(d + 1, c.D, lambda j: o[j] == S.CONV(x, y, j)), c.forall(0, d + 1, lambda j: o[j] == o0[j])]
        return {0: inv0}
    def oracle(self, inp, scal, cfg): return {self.out_key(cfg): SI.conv(inp['x_data'], inp['y_data'])}
    def spec_lemmas(self, c): return [S.causality_lemma2(c, 'CONV', S.CONV, S.conv_def, recursive=False)]


@register
class AMul(Contract):
    qual = A('_amul'); arrays = ('x_data', 'y_data', 'out'); modifies = ('out',); returns = 'none'
    cfgs = {'distinct': {}, 'x_is_y': {'alias': {'y_data': 'x_data'}}}
    property_ids = ('C02', 'C03')
    def ensures(self, c):
        x, y, o0 = c.pre['x_data'], c.pre['y_data'], c.pre['out']; o = c.cur('out')
        return [('out[d] = out0[d] + sum_k x[k] y[d-k]', c.forall(0, c.D, lambda j: o[j] == o0[j] + S.CONV(x, y, j)))]
    def spec_instances(self, c, n): return S.conv_def(c, c.pre['x_data'], c.pre['y_data'], n)
    def invariants(self):
        def inv0(c, d):
            x, y, o0 = c.pre['x_data'], c.pre['y_data'], c.pre['out']; o = c.cur('out')
            return [c.forall(0, d, lambda j: o[j] == o0[j] + S.CONV(x, y, j)), c.forall(d, c.D, lambda j: o[j] == o0[j])]
        return {0: inv0}
    def oracle(self, inp, scal, cfg): return {'out': SI.add(inp['out'], SI.conv(inp['x_data'], inp['y_data']))}


@register
class TrueDiv(Contract):
    qual = A('_truediv'); arrays = ('x_data', 'y_data', 'out'); modifies = ('out',); returns = 'out'
    cfgs = {'distinct': {}, 'x_is_y': {'alias': {'y_data': 'x_data'}}, 'out_is_x': {'alias': {'out': 'x_data'}}}
    property_ids = ('C02', 'C12', 'C14')
    def requires(self, c): return [c.pre['y_data'][0] != 0]
    def ensures(self, c):
        x, y = c.pre['x_data'], c.pre['y_data']; o = c.cur('out')
        return [('out[d] = QUOT(x,y,d)', c.forall(0, c.D, lambda j: o[j] == S.QUOT(x, y, j)))]
    def spec_instances(self, c, n): return S.quot_def(c, c.pre['x_data'], c.pre['y_data'], n)
    def invariants(self):
        def inv0(c, d):
            x, y = c.pre['x_data'], c.pre['y_data']; z = c.local('z_data')
            return [c.forall(0, d, lambda j: z[j] == S.QUOT(x, y, j))] + c.unchanged('x_data', 'y_data', 'out')
        return {0: inv0}
    def oracle(self, inp, scal, cfg): return {'out': SI.quot(inp['x_data'], inp['y_data'])}
    def spec_lemmas(self, c): return [S.causality_lemma2(c, 'QUOT', S.QUOT, S.quot_def, domain=lambda a, b: [b[0] != 0])]


@register
class ITrueDiv(Contract):
    qual = A('_itruediv'); arrays = ('z_data', 'x_data'); modifies = ('z_data',); returns = 'none'
    cfgs = {'distinct': {}}
    property_ids = ('C02', 'C12')
    def requires(self, c): return [c.pre['x_data'][0] != 0]
    def ensures(self, c):
        z0, x = c.pre['z_data'], c.pre['x_data']; z = c.cur('z_data')
        return [('z[d] = QUOT(z0,x,d)', c.forall(0, c.D, lambda j: z[j] == S.QUOT(z0, x, j)))]
    def spec_instances(self, c, n): return S.quot_def(c, c.pre['z_data'], c.pre['x_data'], n)
    def invariants(self):
        def inv0(c, d):
            z0, x = c.pre['z_data'], c.pre['x_data']; t = c.local('tmp_data')
            return [c.forall(0, d, lambda j: t[j] == S.QUOT(z0, x, j))] + c.unchanged('x_data', 'z_data')
        return {0: inv0}
    def oracle(self, inp, scal, cfg): return {'z_data': SI.quot(inp['z_data'], inp['x_data'])}


@register
class Reciprocal(Contract):
    qual = A('_reciprocal'); arrays = ('y_data', 'out'); modifies = ('out',); returns = 'out'
    cfgs = {'out_none': {'out': None}, 'distinct': {}}
    property_ids = ('C01', 'C02', 'C12', 'C14')
    def requires(self, c): return [c.pre['y_data'][0] != 0]
    def ensures(self, c):
        y = c.pre['y_data']; o = c.outarr()
        return [('out[d] = RECIP(y,d)', c.forall(0, c.D, lambda j: o[j] == S.RECIP(y, j)))]
    def spec_instances(self, c, n): return S.recip_def(c, c.pre['y_data'], n)
    def invariants(self):
        def inv0(c, d):
            y = c.pre['y_data']; z = c.local('z_data')
            return [c.forall(0, d, lambda j: z[j] == S.RECIP(y, j))] + c.unchanged('y_data', 'out')
        return {0: inv0}
    def oracle(self, inp, scal, cfg): return {self.out_key(cfg): SI.recip(inp['y_data'])}
    def spec_lemmas(self, c): return [S.causality_lemma(c, 'RECIP', [S.RECIP], S.recip_def, domain=lambda a: [a[0] != 0])]


# ---------------------------------------------------------------------------------------------- elementary kernels
class Elem1(Contract):
    """y = f(x): one input array, one output array `out`, spec function T, loop invariant  forall j<d. y[j] = T(x,j)"""
    arrays = ('x_data', 'out'); modifies = ('out',); returns = 'out'
    cfgs = {'distinct': {}}
    T = None; ylocal = 'y_data'
    property_ids = ('C01', 'C12', 'C14')
    def domain(self, x): return []
    def requires(self, c): return self.domain(c.pre['x_data'])
    def ensures(self, c):
        x = c.pre['x_data']; o = c.cur('out')
        return [('out[d] = %s(x,d)' % self.T.name(), c.forall(0, c.D, lambda j: o[j] == self.T(x, j)))]
    SIF = None; DEF = None
    def oracle(self, inp, scal, cfg): return {self.out_key(cfg): getattr(SI, self.SIF)(inp['x_data'])}
    def spec_lemmas(self, c):
        return [S.causality_lemma(c, self.T.name(), [self.T], self.DEF, domain=self.domain)] if self.DEF is not None else []


@register
class Exp(Elem1):
    qual = A('_exp'); DEF = staticmethod(S.exp_def); SIF = 'exp'; T = S.EXP
    cfgs = {'distinct': {}, 'out_none': {'out': None}}
    def ensures(self, c):
        x = c.pre['x_data']; o = c.outarr()
        return [('out[d] = EXP(x,d)', c.forall(0, c.D, lambda j: o[j] == S.EXP(x, j)))]
    def spec_instances(self, c, n): return S.exp_def(c, c.pre['x_data'], n)
    def invariants(self):
        def inv0(c, d):   # scaling loop: xtctilde[i] = (i+1) x[i+1] for i < d-1 ; untouched above
            x = c.pre['x_data']; a = c.local('xtctilde'); y = c.local('y_data')
            return [c.forall(0, d - 1, lambda j: a[j] == toR(j + 1) * x[j + 1]), c.forall(d - 1, c.D - 1, lambda j: a[j] == x[j + 1]),
                    y[0] == S.EXP(x, 0)] + c.unchanged('x_data')
        def inv1(c, d):
            x = c.pre['x_data']; a = c.local('xtctilde'); y = c.local('y_data')
            return [c.forall(0, c.D - 1, lambda j: a[j] == toR(j + 1) * x[j + 1]), c.forall(0, d, lambda j: y[j] == S.EXP(x, j))] + c.unchanged('x_data')
        return {0: inv0, 1: inv1}


@register
class Log(Elem1):
    qual = A('_log'); DEF = staticmethod(S.log_def); SIF = 'log'; T = S.LOG
    def domain(self, x): return [x[0] != 0]
    def spec_instances(self, c, n): return S.log_def(c, c.pre['x_data'], n)
    def invariants(self):
        def inv0(c, d):   # unscaled: y[j] = j * LOG(j)
            x = c.pre['x_data']; y = c.local('y_data')
            return [y[0] == S.LOG(x, 0), c.forall(1, d, lambda j: y[j] == toR(j) * S.LOG(x, j))] + c.unchanged('x_data')
        def inv1(c, d):
            x = c.pre['x_data']; y = c.local('y_data')
            return [y[0] == S.LOG(x, 0), c.forall(1, d, lambda j: y[j] == S.LOG(x, j)), c.forall(d, c.D, lambda j: y[j] == toR(j) * S.LOG(x, j))] + c.unchanged('x_data')
        return {0: inv0, 1: inv1}


class Pair(Contract):
    """(y, z) = f(x) with tuple `out`: coupled recurrences"""
    arrays = ('x_data', 'out.0', 'out.1'); tuples = {'out': 2}; modifies = ('out.0', 'out.1'); returns = 'out'
    cfgs = {'distinct': {}}
    T0 = T1 = None
    property_ids = ('C01', 'C12', 'C14')
    def domain(self, x): return []
    def requires(self, c): return self.domain(c.pre['x_data'])
    def ensures(self, c):
        x = c.pre['x_data']; a, b = c.cur('out.0'), c.cur('out.1')
        return [('out0[d] = %s(x,d)' % self.T0.name(), c.forall(0, c.D, lambda j: a[j] == self.T0(x, j))),
                ('out1[d] = %s(x,d)' % self.T1.name(), c.forall(0, c.D, lambda j: b[j] == self.T1(x, j)))]
    def invariants(self):
        def inv0(c, d):
            x = c.pre['x_data']; a, b = c.cur('out.0'), c.cur('out.1')
            return [c.forall(0, d, lambda j: z3.And(a[j] == self.T0(x, j), b[j] == self.T1(x, j)))] + c.unchanged('x_data')
        return {0: inv0}
    SIF = None; DEF = None
    def oracle(self, inp, scal, cfg):
        a, b = getattr(SI, self.SIF)(inp['x_data']); return {'out.0': a, 'out.1': b}
    def spec_lemmas(self, c):
        return [S.causality_lemma(c, self.T0.name() + '/' + self.T1.name(), [self.T0, self.T1], self.DEF, domain=self.domain)] if self.DEF is not None else []


@register
class SinCos(Pair):
    qual = A('_sincos'); DEF = staticmethod(S.sincos_def); SIF = 'sincos'; T0, T1 = S.SIN, S.COS
    def spec_instances(self, c, n): return S.sincos_def(c, c.pre['x_data'], n)

@register
class SinhCosh(Pair):
    qual = A('_sinhcosh'); DEF = staticmethod(S.sinhcosh_def); SIF = 'sinhcosh'; T0, T1 = S.SINH, S.COSH
    def spec_instances(self, c, n): return S.sinhcosh_def(c, c.pre['x_data'], n)

@register
class TanSec2(Pair):
    qual = A('_tansec2'); DEF = staticmethod(S.tansec2_def); SIF = 'tansec2'; T0, T1 = S.TAN, S.SEC2
    def domain(self, x): return [S.np('cos')(x[0]) != 0]
    def spec_instances(self, c, n): return S.tansec2_def(c, c.pre['x_data'], n)

@register
class TanhSech2(Pair):
    qual = A('_tanhsech2'); DEF = staticmethod(S.tanhsech2_def); SIF = 'tanhsech2'; T0, T1 = S.TANH, S.SECH2
    def spec_instances(self, c, n): return S.tanhsech2_def(c, c.pre['x_data'], n)

@register
class ArcSin(Pair):
    qual = A('_arcsin'); DEF = staticmethod(S.arcsin_def); SIF = 'arcsin'; T0, T1 = S.ASIN, S.ASINZ
    def domain(self, x): return [S.np('cos')(S.np('arcsin')(x[0])) != 0]
    def spec_instances(self, c, n): return S.arcsin_def(c, c.pre['x_data'], n)

@register
class ArcCos(Pair):
    qual = A('_arccos'); DEF = staticmethod(S.arccos_def); SIF = 'arccos'; T0, T1 = S.ACOS, S.ACOSZ
    def domain(self, x): return [S.np('sin')(S.np('arccos')(x[0])) != 0]
    def spec_instances(self, c, n): return S.arccos_def(c, c.pre['x_data'], n)

@register
class ArcTan(Pair):
    qual = A('_arctan'); DEF = staticmethod(S.arctan_def); SIF = 'arctan'; T0, T1 = S.ATAN, S.ATANZ
    def spec_instances(self, c, n): return S.arctan_def(c, c.pre['x_data'], n)


@register
class Sqrt(Elem1):
    qual = A('_sqrt'); DEF = staticmethod(S.sqrt_def); SIF = 'sqrt'; T = S.SQRT
    def domain(self, x): return [S.np('sqrt')(x[0]) != 0]
    def spec_instances(self, c, n): return S.sqrt_def(c, c.pre['x_data'], n)
    def invariants(self):
        def inv0(c, k):
            x = c.pre['x_data']; y = c.local('y_data')
            return [c.forall(0, k, lambda j: y[j] == S.SQRT(x, j))] + c.unchanged('x_data')
        return {0: inv0}


# ---------------------------------------------------------------------------------------------- more ring-level kernels
@register
class Square(Contract):
    qual = A('_square'); arrays = ('x_data', 'out'); modifies = ('out',); returns = 'out'
    cfgs = {'distinct': {}, 'out_none': {'out': None}, 'out_is_x': {'alias': {'out': 'x_data'}}}
    property_ids = ('C01', 'C02', 'C14', 'C12')
    lemma_depth = 1
    def ensures(self, c):
        x = c.pre['x_data']; o = c.outarr()
        return [('out[d] = sum_k x[k] x[d-k]', c.forall(0, c.D, lambda j: o[j] == S.CONV(x, x, j)))]
    def spec_instances(self, c, n):
        # definition of CONV plus the split of the convolution sum at h = (n+1)//2 used by the code:
        #   sum_{k=0}^{n} = sum_{k=0}^{h-1} + sum_{k=h}^{n-h} + sum_{k=n-h+1}^{n}      (split lemma instance, Lean: sum_Icc_split)
        x = c.pre['x_data']; f = lambda k: x[k] * x[n - k]
        h = (n + 1) / 2
        whole = c.Sum(z3.IntVal(0), n, f)
        lo = c.Sum(z3.IntVal(0), h - 1, f); mid = c.Sum(h, n - h, f); hi = c.Sum(n - h + 1, n, f)
        return [S.CONV(x, x, n) == whole, z3.Implies(n >= 0, whole == lo + mid + hi)]
    def invariants(self):
        def inv0(c, d):
            x = c.pre['x_data']; t = c.local('tmp')
            return [c.forall(0, d, lambda j: t[j] == S.CONV(x, x, j)), c.forall(d, c.D, lambda j: t[j] == 0)] + c.unchanged('x_data', 'out')
        return {0: inv0}
    def oracle(self, inp, scal, cfg): return {self.out_key(cfg): SI.conv(inp['x_data'], inp['x_data'])}


@register
class PlusConst(Contract):
    file = 'algopy/utpm/algorithms.py'; qual = '_plus_const'
    arrays = ('x_data', 'out'); scalars = {'c': 'real'}; modifies = ('out',); returns = 'out'
    cfgs = {'out_none': {'out': None}, 'distinct': {}, 'out_is_x': {'alias': {'out': 'x_data'}}}
    property_ids = ('C01', 'C02', 'C12')
    def ensures(self, c):
        cc = scalar_of(c, 'c'); ct = toR(cc.t)
        if c.has('out') and not isinstance(c, type(None)) and c.present.get('out', True) and 'out' in c._names and c.has('out') and c.cur('out') is not None and self._out_given(c):
            o0 = c.pre['out']; o = c.cur('out')
            return [('out[0] += c', c.forall(0, c.D, lambda j: o[j] == z3.If(j == 0, o0[j] + ct, o0[j])))]
        x = c.pre['x_data']; o = c.outarr()
        return [('ret = x + c at order 0', c.forall(0, c.D, lambda j: o[j] == z3.If(j == 0, x[j] + ct, x[j])))]
    def _out_given(self, c):
        from vc.contract import _SubCtx
        if isinstance(c, _SubCtx): return c.bound.get('out') is not None
        return c.present.get('out', False)
    def native_scalars(self, cfg, rng): return {'c': round(rng.uniform(-2, 2) * 8) / 8}
    def oracle(self, inp, scal, cfg):
        src = inp['out'] if cfg == 'distinct' else inp['x_data']
        return {self.out_key(cfg): [src[0] + scal['c']] + list(src[1:])}


@register
class Negative(Contract):
    qual = A('_negative'); arrays = ('x_data', 'out'); modifies = ('out',); returns = 'out'
    cfgs = {'distinct': {}, 'out_none': {'out': None}, 'out_is_x': {'alias': {'out': 'x_data'}}}
    property_ids = ('C01', 'C12')
    def ensures(self, c):
        x = c.pre['x_data']; o = c.outarr()
        return [('out = -x', c.forall(0, c.D, lambda j: o[j] == -x[j]))]
    def oracle(self, inp, scal, cfg): return {self.out_key(cfg): [-v for v in inp['x_data']]}


@register
class BlackFWhiteFprime(Contract):
    qual = '_black_f_white_fprime'
    arrays = ('fprime_data', 'x_data', 'out'); scalars = {'f': 'func'}; modifies = ('out',); returns = 'out'
    cfgs = {'distinct': {}, 'out_none': {'out': None}}
    property_ids = ('C01', 'C12')
    def f0(self, c):
        from vc.engine import DER
        f = scalar_of(c, 'f'); tag = f.name + ''.join('|' + str(b.t) for b in f.bound)
        return DER(tag)(z3.IntVal(0), c.pre['x_data'][0])
    def ensures(self, c):
        x, fp = c.pre['x_data'], c.pre['fprime_data']; o = c.outarr()
        return [('y[0]=f(x0), d y[d] = sum_k k x[k] fp[d-k]', c.forall(0, c.D, lambda j: o[j] == S.BFWF(x, fp, self.f0(c), j)))]
    def spec_instances(self, c, n): return S.bfwf_def(c, c.pre['x_data'], c.pre['fprime_data'], self.f0(c), n)
    def spec_lemmas(self, c):
        f0 = z3.Real('f0!caus')
        return [S.causality_lemma2(c, 'BFWF', lambda a, b, n: S.BFWF(a, b, f0, n), lambda c_, a, b, n: S.bfwf_def(c_, a, b, f0, n), recursive=False)]
    def invariants(self):
        def inv0(c, d):
            x, fp = c.pre['x_data'], c.pre['fprime_data']; y = c.local('y_data')
            return [c.forall(0, d, lambda j: y[j] == S.BFWF(x, fp, self.f0(c), j)), c.forall(d, c.D, lambda j: y[j] == 0)] + c.unchanged('x_data', 'fprime_data')
        def inv1(c, cc):
            x, fp = c.pre['x_data'], c.pre['fprime_data']; y = c.local('y_data'); d = c.st.env['d'].t
            return [c.forall(0, d, lambda j: y[j] == S.BFWF(x, fp, self.f0(c), j)), c.forall(d + 1, c.D, lambda j: y[j] == 0),
                    y[d] == c.Sum(z3.IntVal(0), cc - 1, lambda k: fp[d - 1 - k] * x[k + 1] * toR(k + 1))] + c.unchanged('x_data', 'fprime_data')
        return {0: inv0, 1: inv1}
    def native_scalars(self, cfg, rng):
        import numpy; return {'f': numpy.tanh}
    def oracle(self, inp, scal, cfg):
        import math; return {self.out_key(cfg): SI.bfwf(inp['x_data'], inp['fprime_data'], math.tanh(inp['x_data'][0]))}


# ---------------------------------------------------------------------------------------------- powers
@register
class PowReal(Contract):
    """y = x**r.  Configurations follow the branches of the code: Python int r = 0, 1, 2, r >= 3 (repeated _mul with out aliased to y),
    and the general real exponent (also negative ints since fix 340a593 only on the pullback side; forward: every non-int or negative r)."""
    qual = A('_pow_real'); arrays = ('x_data', 'out'); scalars = {'r': 'real'}; modifies = ('out',); returns = 'any'
    cfgs = {'real': {'r': 'real'}, 'int0': {'r': 0}, 'int1': {'r': 1}, 'int2': {'r': 2}, 'int_ge3': {'r': 'int'}, 'int_neg': {'r': 'int'}}
    property_ids = ('C01', 'C02', 'C12', 'C14')
    def skolem_for(self, cfg): return cfg.startswith('int') and cfg != 'int_neg'
    def cfg_assumptions(self, c, cfg):
        r = scalar_of(c, 'r')
        if cfg == 'int_ge3': return [r.t >= 3]
        if cfg == 'int_neg': return [r.t < 0]
        return []
    def requires(self, c):
        r = scalar_of(c, 'r')
        if isinstance(r, IntV) and (c.ex.entails(r.t >= 0) is True): return []
        return [c.pre['x_data'][0] != 0]
    def _kind(self, c):
        r = scalar_of(c, 'r')
        if isinstance(r, IntV) and c.ex.entails(r.t >= 0) is True: return 'nat', r.t
        return 'real', toR(r.t)
    def ensures(self, c):
        x = c.pre['x_data']; o = c.cur('out'); kind, r = self._kind(c)
        if kind == 'nat': return [('out = x^(*r) (repeated Cauchy product)', c.forall(0, c.D, lambda j: o[j] == S.POWN(x, r, j)))]
        return [('out[d] = POWR(x,r,d)', c.forall(0, c.D, lambda j: o[j] == S.POWR(x, r, j)))]
    def spec_instances(self, c, n):
        x = c.pre['x_data']; kind, r = self._kind(c)
        if kind == 'real': return S.powr_def(c, x, r, n)
        out = []
        # POWN definitions at the exponents the branches need: r, r-1, ..., down to 0 for small literal r; (nr+1, nr+2) inside the loop
        rv = E_ival(r)
        if rv is not None:
            for m in range(rv, -1, -1): out += S.pown_def(c, x, z3.IntVal(m), n)
            if rv == 2: out += S.conv_def(c, x, x, n)
        else:
            lb = getattr(c.ex, 'loop_bounds', {}).get(0)                        # the multiplication loop (whatever its variable is called / however it is indexed)
            nr = c.st.env.get(lb[3]) if lb is not None else None
            if isinstance(nr, IntV):
                if z3.eq(z3.simplify(n), z3.simplify(nr.t)): return []        # the loop variable counts products here, it is not an order
                out += S.pown_def(c, x, nr.t - lb[0] + 1, n)                   # before the iteration with index v:  y = x^(*(v - lo + 1)); at the goal v is already the next value
            else: out += S.pown_def(c, x, r, n)
        return out
    def extra_axioms(self, c):
        # base case of the repeated product, available under sums:  x^(*1) = x
        x = c.pre['x_data']; m = z3.Int('m!pw1')
        return [z3.ForAll([m], S.POWN(x, z3.IntVal(1), m) == x[m])]
    def invariants(self):
        def inv_nat(c, nr):          # after `it` completed products:  y = x^(*(it+1))   (r-1 products in total)
            x = c.pre['x_data']; y = c.cur('out'); it = c.iters
            return [c.forall(0, c.D, lambda j: y[j] == S.POWN(x, it + 1, j))] + c.unchanged('x_data')
        def inv_real(c, d):
            x = c.pre['x_data']; y = c.cur('out'); kind, r = self._kind(c)
            return [c.forall(0, d, lambda j: y[j] == S.POWR(x, r, j))] + c.unchanged('x_data')
        class Pick(dict):
            def __init__(s, outer): s.outer = outer
        # loop 0 is either the nr-loop (int r >= 3) or the d-loop (real r): decided at evaluation time by the configuration
        def inv0(c, v):
            kind, r = self._kind(c)
            return inv_nat(c, v) if kind == 'nat' else inv_real(c, v)
        return {0: inv0}
    def native_scalars(self, cfg, rng):
        self._cfg = cfg
        return {'r': {'real': rng.choice([2.5, 0.5, -1.5]), 'int0': 0, 'int1': 1, 'int2': 2, 'int_ge3': rng.choice([3, 4, 5, 8, 17, 33]), 'int_neg': rng.choice([-1, -2, -3])}[cfg]}
    def sample_x0(self, name, rng):
        # integer powers involve no division: a vanishing zeroth coefficient is inside the domain
        if getattr(self, '_cfg', '') in ('int0', 'int1', 'int2', 'int_ge3') and name == 'x_data' and rng.random() < 0.3: return 0.0
        return round(rng.uniform(0.3, 0.9) * 16) / 16
    def oracle(self, inp, scal, cfg):
        r = scal['r']
        if cfg in ('real', 'int_neg'): return {'out': SI.powr(inp['x_data'], r)}
        return {'out': SI.pown(inp['x_data'], r)}


def E_ival(t):
    t = z3.simplify(t) if z3.is_expr(t) else z3.IntVal(t)
    return t.as_long() if z3.is_int_value(t) else None


# ---------------------------------------------------------------------------------------------- piecewise kernels (away from the kink)
def sgn(t): return z3.If(t > 0, z3.RealVal(1), z3.If(t < 0, z3.RealVal(-1), z3.RealVal(0)))

@register
class Absolute(Contract):
    qual = A('_absolute'); arrays = ('x_data', 'out'); modifies = ('out',); returns = 'out'
    cfgs = {'distinct': {}, 'out_none': {'out': None}, 'out_is_x': {'alias': {'out': 'x_data'}}}
    property_ids = ('C01', 'C12', 'C14')
    def requires(self, c): return [c.pre['x_data'][0] != 0]          # the kink itself is excluded by the property
    def val(self, c, j): x = c.pre['x_data']; return sgn(x[0]) * x[j]
    def ensures(self, c):
        o = c.outarr(); return [('out[d] = sign(x0) x[d]', c.forall(0, c.D, lambda j: o[j] == self.val(c, j)))]
    def invariants(self):
        def inv0(c, d):
            o = c.local('z_data'); x = c.pre['x_data']; xs = c.st.env.get('x_data')
            cur = c.st.heap[xs.base][0]
            # orders >= d of the (possibly aliased) input still hold their entry values
            return [c.forall(0, d, lambda j: o[j] == self.val(c, j)), c.forall(d, c.D, lambda j: cur[j] == x[j])] + ([c.scalar_any('x_data_sign') == sgn(x[0])] if c.has_local('x_data_sign') else [])
        return {0: inv0}
    def oracle(self, inp, scal, cfg):
        s_ = 1.0 if inp['x_data'][0] > 0 else -1.0; return {self.out_key(cfg): [s_ * v for v in inp['x_data']]}

@register
class Sign(Contract):
    qual = A('_sign'); arrays = ('x_data', 'out'); modifies = ('out',); returns = 'out'
    cfgs = {'distinct': {}}
    property_ids = ('C01', 'C12', 'C14')
    def requires(self, c): return [c.pre['x_data'][0] != 0]
    def ensures(self, c):
        o = c.cur('out'); x = c.pre['x_data']; return [('out = (sign(x0), 0, 0, ...)', c.forall(0, c.D, lambda j: o[j] == z3.If(j == 0, sgn(x[0]), z3.RealVal(0))))]
    def oracle(self, inp, scal, cfg): return {'out': [1.0 if inp['x_data'][0] > 0 else -1.0] + [0.0] * (len(inp['x_data']) - 1)}

class MinMax(Contract):
    arrays = ('x_data', 'y_data', 'out'); modifies = ('out',); returns = 'out'
    cfgs = {'distinct': {}, 'out_none': {'out': None}}
    property_ids = ('C01', 'C12', 'C14')
    less = True
    def requires(self, c): return [c.pre['x_data'][0] != c.pre['y_data'][0]]
    def pick(self, c, j):
        x, y = c.pre['x_data'], c.pre['y_data']
        cond = (x[0] <= y[0]) if self.less else (x[0] >= y[0])
        return z3.If(cond, x[j], y[j])
    def ensures(self, c):
        o = c.outarr(); return [('out[d] = branch selected by the zeroth coefficients', c.forall(0, c.D, lambda j: o[j] == self.pick(c, j)))]
    def invariants(self):
        def inv0(c, d):
            z = c.local('z_data'); return [c.forall(0, d, lambda j: z[j] == self.pick(c, j))] + c.unchanged('x_data', 'y_data', 'out')
        return {0: inv0}
    def sample_x0(self, name, rng): return round(rng.uniform(-1, 1) * 16) / 16 + (0.03125 if name == 'y_data' else 0.0)
    def oracle(self, inp, scal, cfg):
        takex = (inp['x_data'][0] <= inp['y_data'][0]) if self.less else (inp['x_data'][0] >= inp['y_data'][0])
        return {self.out_key(cfg): list(inp['x_data'] if takex else inp['y_data'])}
@register
class Minimum(MinMax): qual = A('_minimum'); less = True
@register
class Maximum(MinMax): qual = A('_maximum'); less = False

@register
class BotchedClip(Contract):
    """y = clip(x, a_min, a_max) away from the kinks; relies on `out` being a clone of x (precondition established by UTPM.botched_clip)"""
    qual = A('_botched_clip'); arrays = ('x_data', 'out'); scalars = {'a_min': 'real', 'a_max': 'real'}; modifies = ('out',); returns = 'out'
    cfgs = {'distinct': {}}
    property_ids = ('C01', 'C12', 'C14')
    def requires(self, c):
        x = c.pre['x_data']; o0 = c.pre['out']; lo, hi = toR(scalar_of(c, 'a_min').t), toR(scalar_of(c, 'a_max').t)
        return [x[0] != lo, x[0] != hi, lo <= hi, c.forall(0, c.D, lambda j: o0[j] == x[j])]
    def val(self, c, j):
        x = c.pre['x_data']; lo, hi = toR(scalar_of(c, 'a_min').t), toR(scalar_of(c, 'a_max').t)
        inside = z3.And(lo < x[0], x[0] < hi)
        return z3.If(j == 0, z3.If(x[0] < lo, lo, z3.If(x[0] > hi, hi, x[0])), z3.If(inside, x[j], z3.RealVal(0)))
    def ensures(self, c):
        o = c.cur('out'); return [('out = clip branch applied coefficient-wise', c.forall(0, c.D, lambda j: o[j] == self.val(c, j)))]
    def invariants(self):
        def inv0(c, d):
            o = c.cur('out'); x = c.pre['x_data']
            return [c.forall(0, d, lambda j: o[j] == self.val(c, j)), c.forall(d, c.D, lambda j: o[j] == x[j])] + c.unchanged('x_data')
        return {0: inv0}
    def native_scalars(self, cfg, rng): return {'a_min': 0.2, 'a_max': rng.choice([0.55, 2.0])}
    def native_init(self, name, arr, cfg):
        if name == 'x_data': self._x = arr
        if name == 'out': arr[...] = self._x            # precondition: out is a clone of x
    def oracle(self, inp, scal, cfg):
        x = inp['x_data']; lo, hi = scal['a_min'], scal['a_max']; inside = lo < x[0] < hi
        return {'out': [min(max(x[0], lo), hi)] + [(v if inside else 0.0) for v in x[1:]]}


@register
class Expm1(Contract):
    qual = A('_expm1'); arrays = ('x_data', 'out'); modifies = ('out',); returns = 'out'
    cfgs = {'distinct': {}, 'out_none': {'out': None}}
    property_ids = ('C01', 'C12', 'C14')
    skolem_instances = True
    EXPM1 = z3.Function('EXPM1', S.ARR, S.I, S.R)
    def f0(self, c):
        from vc.engine import DER
        return DER('nthderiv.expm1')(z3.IntVal(0), c.pre['x_data'][0])
    def defs(self, c, n):
        x = c.pre['x_data']
        return [z3.Implies(n >= 1, self.EXPM1(x, n) == c.Sum(z3.IntVal(1), n, lambda k: toR(k) * x[k] * S.EXP(x, n - k)) / toR(n)), self.EXPM1(x, 0) == self.f0(c)]
    def ensures(self, c):
        x = c.pre['x_data']; o = c.outarr()
        return [("theta(y) = exp(x) (*) theta(x), y[0] = expm1(x0)", c.forall(0, c.D, lambda j: o[j] == self.EXPM1(x, j)))]
    def spec_instances(self, c, n): return self.defs(c, n)
    def oracle(self, inp, scal, cfg):
        import math; x = inp['x_data']; return {self.out_key(cfg): SI.bfwf(x, SI.exp(x), math.expm1(x[0]))}


# ---------------------------------------------------------------------------------------------- Faa di Bruno (generic special functions)
PWR = z3.Function('PWR', S.ARR, S.I, S.I, S.R)        # PWR(x,n,k) = [t^k] (x(t) - x_0)^n      (n >= 1, k >= 1)
def pwr_def(c, x, n, k):
    return [z3.Implies(n == 1, PWR(x, n, k) == x[k]),
            z3.Implies(n >= 2, PWR(x, n, k) == c.Sum(z3.IntVal(1), k - 1, lambda j: PWR(x, n - 1, j) * x[k - j]))]

@register
class EvalSlowGeneric(Contract):
    """y_0 = f(x_0);  y_k = sum_{n=1}^{D-1} f^(n)(x_0)/n! * [t^k](x(t)-x_0)^n   (Faa di Bruno; the terms with n > k vanish)"""
    qual = '_eval_slow_generic'; arrays = ('x_data', 'out'); scalars = {'f': 'func'}; modifies = ('out',); returns = 'out'
    cfgs = {'distinct': {}, 'out_none': {'out': None}}
    property_ids = ('C01', 'C14')
    skolem_instances = True
    bounded_D = (1, 2, 3, 4); bounded_D_thorough = (1, 2, 3, 4)          # D = 5 is not reliably decided (non-linear search depends on term order)
    def der(self, c, n):
        from vc.engine import DER
        f = scalar_of(c, 'f'); tag = f.name + ''.join('|' + str(b.t) for b in f.bound)
        return DER(tag)(n, c.pre['x_data'][0])
    def coef(self, c, n):
        from vc.engine import FACT
        return self.der(c, n) / toR(FACT(n))
    def ensures(self, c):
        x = c.pre['x_data']; o = c.outarr()
        return [('y[0] = f(x0)', o[0] == self.der(c, z3.IntVal(0))),
                ('y[k] = sum_n f^(n)(x0)/n! [t^k](x-x0)^n', c.forall(1, c.D, lambda k: o[k] == c.Sum(z3.IntVal(1), c.D - 1, lambda n: self.coef(c, n) * PWR(x, n, k))))]
    def spec_instances(self, c, j):
        # PWR definition at (d, j+1) / (d, j) for the current order d of the outer loop
        x = c.pre['x_data']; d = c.st.env.get('d'); out = []
        if isinstance(d, IntV):
            out += pwr_def(c, x, d.t, j + 1) + pwr_def(c, x, d.t, j) + pwr_def(c, x, d.t - 1, j)
        return out
    def invariants(self):
        def inv_d(c, d):
            x = c.pre['x_data']; y = c.local('y_data')
            parts = [y[0] == self.der(c, z3.IntVal(0)), c.forall(1, c.D, lambda k: y[k] == c.Sum(z3.IntVal(1), d - 1, lambda n: self.coef(c, n) * PWR(x, n, k)))] + c.unchanged('x_data')
            if c.has_local('accum'):
                a = c.local('accum'); parts.append(z3.Implies(d >= 2, c.forall(0, c.D - 1, lambda i: a[i] == PWR(x, d - 1, i + 1))))
            return parts
        def inv_i(c, i):          # descending i: entries above i hold the new power, entries <= i the old one
            x = c.pre['x_data']; y = c.local('y_data'); a = c.local('accum'); d = c.scalar('d')
            return [y[0] == self.der(c, z3.IntVal(0)), c.forall(1, c.D, lambda k: y[k] == c.Sum(z3.IntVal(1), d - 1, lambda n: self.coef(c, n) * PWR(x, n, k))),
                    c.forall(i + 1, c.D - 1, lambda j: a[j] == PWR(x, d, j + 1)), c.forall(0, i + 1, lambda j: a[j] == PWR(x, d - 1, j + 1))] + c.unchanged('x_data')
        return {0: inv_d, 1: inv_i}
    def concrete_instances(self, c, D):
        import math
        from vc.engine import FACT
        x = c.pre['x_data']; out = [FACT(z3.IntVal(n)) == math.factorial(n) for n in range(0, D + 1)]
        for n in range(1, D):
            for k in range(1, D): out += pwr_def(c, x, z3.IntVal(n), z3.IntVal(k))
        return out
    def native_scalars(self, cfg, rng):
        import numpy
        def f(x, out=None, n=0): return numpy.exp(2.0 * x) * 2.0 ** n
        return {'f': f}
    def oracle(self, inp, scal, cfg):
        import math
        x = inp['x_data']; D = len(x); ders = [math.exp(2.0 * x[0]) * 2.0 ** n for n in range(D)]
        return {self.out_key(cfg): SI.compose_faa(x, ders)}
