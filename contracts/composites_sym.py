"""Composite kernels for ALL truncation degrees (symbolic D): the postcondition is the composition of spec functions the property
statement prescribes (y' = f'(x) x' with f' written through EXP, CONV, RECIP, ...), over closed lambda arrays of the entry array;
the proof is the spec-view chain of vc/dataflow.py over the callee contracts.  The unrolled versions (contracts/composites.py,
bounded in D) stay as the cross-check with fully unfolded definitions."""
import math, z3
from vc.contract import Contract
from vc.engine import DER
from . import spec as S
from .kernels import A
from bounded import specinterp as SI

REG = {}
def register(cls):
    inst = cls(); REG[inst.qual.split('.')[-1] + '@allD'] = inst; return cls

R = z3.RealSort()
C2 = 2 / z3.Function('m_sqrt', R, R)(z3.Real('math_pi'))
def lam(f):
    i = z3.FreshInt('i!lam'); return z3.Lambda([i], f(i))
def plus1(a): return lam(lambda i: z3.If(i == 0, a[i] + 1, a[i]))


class CompSym(Contract):
    arrays = ('x_data', 'out'); modifies = ('out',); returns = 'out'
    cfgs = {'distinct': {}, 'out_none': {'out': None}}
    dataflow = True; skolem_instances = False; timeout_ms = 6000; cex_D = ()
    property_ids = ('C01', 'C12', 'C14')
    tag = None
    def dom(self, x): return []
    def requires(self, c): return self.dom(c.pre['x_data'])
    def fprime(self, x): raise NotImplementedError            # closed lambda array: the coefficients of f'(x(t))
    def ensures(self, c):
        x = c.pre['x_data']; o = c.outarr(); f0 = DER(self.tag)(z3.IntVal(0), x[0])
        FP = self.fprime(x)
        return [("y[0] = f(x0), d y[d] = sum_k k x[k] f'(x)[d-k]  with f'(x) = %s" % self.doc, c.forall(0, c.D, lambda j: o[j] == S.BFWF(x, FP, f0, j)))]
    def oracle(self, inp, scal, cfg): return {self.out_key(cfg): self.num(inp['x_data'])}


@register
class Erf(CompSym):
    qual = A('_erf'); tag = 'nthderiv.erf'; doc = '2/sqrt(pi) exp(-x^2)'
    def fprime(self, x):
        nsq = lam(lambda i: -S.CONV(x, x, i)); return lam(lambda i: C2 * S.EXP(nsq, i))
    def num(self, x): return SI.bfwf(x, SI.scale(SI.exp([-v for v in SI.conv(x, x)]), 2 / math.sqrt(math.pi)), math.erf(x[0]))

@register
class Erfi(CompSym):
    qual = A('_erfi'); tag = 'nthderiv.erfi'; doc = '2/sqrt(pi) exp(x^2)'
    def fprime(self, x):
        sq = lam(lambda i: S.CONV(x, x, i)); return lam(lambda i: C2 * S.EXP(sq, i))
    def num(self, x): return SI.bfwf(x, SI.scale(SI.exp(SI.conv(x, x)), 2 / math.sqrt(math.pi)), __import__('scipy.special', fromlist=['erfi']).erfi(x[0]))

@register
class Log1p(CompSym):
    qual = A('_log1p'); tag = 'numpy.log1p'; doc = '1/(1+x)'
    def dom(self, x): return [x[0] + 1 != 0]
    def fprime(self, x): return lam(lambda i: S.RECIP(plus1(x), i))
    def num(self, x): return SI.bfwf(x, SI.recip([x[0] + 1] + list(x[1:])), math.log1p(x[0]))

@register
class Logit(CompSym):
    qual = A('_logit'); tag = 'scipy.special.logit'; doc = '1/(x - x^2)'
    def dom(self, x): return [x[0] - x[0] * x[0] != 0]
    def fprime(self, x):
        d = lam(lambda i: x[i] - S.CONV(x, x, i)); return lam(lambda i: S.RECIP(d, i))
    def num(self, x): return SI.bfwf(x, SI.recip(SI.sub(x, SI.conv(x, x))), math.log(x[0] / (1 - x[0])))
    def sample_x0(self, name, rng): return round(rng.uniform(0.2, 0.8) * 16) / 16

@register
class Expit(CompSym):
    qual = A('_expit'); tag = 'scipy.special.expit'; doc = 'b - b^2, b = 1/(1+exp(x))'
    def dom(self, x): return [S.np('exp')(x[0]) + 1 != 0]
    def fprime(self, x):
        e = lam(lambda i: S.EXP(x, i)); b = lam(lambda i: S.RECIP(plus1(e), i)); return lam(lambda i: b[i] - S.CONV(b, b, i))
    def num(self, x):
        e = SI.exp(x); b = SI.recip([e[0] + 1] + list(e[1:])); return SI.bfwf(x, SI.sub(b, SI.conv(b, b)), 1 / (1 + math.exp(-x[0])))
