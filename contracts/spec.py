"""Specification theory (DESIGN 4): spec functions over (coefficient array, order) -- none depends on D.

Each spec function is an uninterpreted z3 function with a *defining recursion* that is well-founded in the order
index (so the theory is consistent by construction).  `X_def(c, ..., n)` returns the instances of the definition at
order n (a list of formulas; they mention Sum records of c).  The same recursions, written over plain Python numbers,
are in bounded/specinterp.py (the oracle used for replay and for the bounded stand-ins)."""
import z3
I, R = z3.IntSort(), z3.RealSort()
ARR = z3.ArraySort(I, R)
toR = lambda t: z3.ToReal(t) if z3.is_int(t) else t


def F(name, *sorts): return z3.Function(name, *sorts)

CONV = F('CONV', ARR, ARR, I, R)        # Cauchy product        CONV(x,y,n) = sum_{k=0}^{n} x[k] y[n-k]
QUOT = F('QUOT', ARR, ARR, I, R)        # quotient x/y          y[0] Q(n) = x[n] - sum_{k=0}^{n-1} Q(k) y[n-k]
RECIP = F('RECIP', ARR, I, R)           # 1/y
SQRT = F('SQRT', ARR, I, R)
EXP = F('EXP', ARR, I, R); LOG = F('LOG', ARR, I, R)
SIN = F('SIN', ARR, I, R); COS = F('COS', ARR, I, R)
SINH = F('SINH', ARR, I, R); COSH = F('COSH', ARR, I, R)
TAN = F('TAN', ARR, I, R); SEC2 = F('SEC2', ARR, I, R)
TANH = F('TANH', ARR, I, R); SECH2 = F('SECH2', ARR, I, R)
ASIN = F('ASIN', ARR, I, R); ASINZ = F('ASINZ', ARR, I, R)
ACOS = F('ACOS', ARR, I, R); ACOSZ = F('ACOSZ', ARR, I, R)
ATAN = F('ATAN', ARR, I, R); ATANZ = F('ATANZ', ARR, I, R)
POWR = F('POWR', ARR, R, I, R)          # x ** r, real r
POWN = F('POWN', ARR, I, I, R)          # x ** m, integer m >= 0 (repeated Cauchy product)
BFWF = F('BFWF', ARR, ARR, R, I, R)     # "black f white f'" : y[0] = f0 ; n y[n] = sum_{k=1}^{n} k x[k] fp[n-k]

np = lambda nm: F('np_' + nm, R, R)


def conv_def(c, x, y, n):
    return [CONV(x, y, n) == c.Sum(z3.IntVal(0), n, lambda k: x[k] * y[n - k])]

def quot_def(c, x, y, n):
    return [y[0] * QUOT(x, y, n) == x[n] - c.Sum(z3.IntVal(0), n - 1, lambda k: QUOT(x, y, k) * y[n - k])]

def recip_def(c, y, n):
    return [y[0] * RECIP(y, n) == z3.If(n == 0, z3.RealVal(1), z3.RealVal(0)) - c.Sum(z3.IntVal(0), n - 1, lambda k: RECIP(y, k) * y[n - k])]

def sqrt_def(c, x, n):
    # y*y = x :  n = 0: SQRT(0) = np.sqrt(x0) ;  n>=1: 2 y0 y[n] = x[n] - sum_{k=1}^{n-1} y[k] y[n-k]
    # (solved for the n-th coefficient, as the kernel computes it; SQRT(x,0) != 0 is in force wherever this is used)
    return [z3.Implies(n >= 1, SQRT(x, n) == 1 / (2 * SQRT(x, 0)) * (x[n] - c.Sum(z3.IntVal(1), n - 1, lambda k: SQRT(x, k) * SQRT(x, n - k)))),
            SQRT(x, 0) == np('sqrt')(x[0])]

def exp_def(c, x, n):
    return [z3.Implies(n >= 1, EXP(x, n) == c.Sum(z3.IntVal(1), n, lambda k: toR(k) * x[k] * EXP(x, n - k)) / toR(n)),
            EXP(x, 0) == np('exp')(x[0])]

def log_def(c, x, n):
    # x * theta(y) = theta(x) :  n x[n] = sum_{k=1}^{n} k L(k) x[n-k]
    return [z3.Implies(n >= 1, toR(n) * LOG(x, n) == (toR(n) * x[n] - c.Sum(z3.IntVal(1), n - 1, lambda k: toR(k) * LOG(x, k) * x[n - k])) / x[0]),
            LOG(x, 0) == np('log')(x[0])]

def _pair_def(S, C, s0, c0, sign):
    def d(c, x, n):
        return [z3.Implies(n >= 1, S(x, n) == c.Sum(z3.IntVal(1), n, lambda k: toR(k) * x[k] * C(x, n - k)) / toR(n)),
                z3.Implies(n >= 1, C(x, n) == c.Sum(z3.IntVal(1), n, lambda k: sign * toR(k) * x[k] * S(x, n - k)) / toR(n)),
                S(x, 0) == np(s0)(x[0]), C(x, 0) == np(c0)(x[0])]
    return d
sincos_def = _pair_def(SIN, COS, 'sin', 'cos', -1)
sinhcosh_def = _pair_def(SINH, COSH, 'sinh', 'cosh', 1)

def tansec2_def(c, x, n):
    return [z3.Implies(n >= 1, TAN(x, n) == c.Sum(z3.IntVal(1), n, lambda k: toR(k) * x[k] * SEC2(x, n - k)) / toR(n)),
            z3.Implies(n >= 1, SEC2(x, n) == 2 * c.Sum(z3.IntVal(1), n, lambda k: toR(k) * TAN(x, k) * TAN(x, n - k)) / toR(n)),
            TAN(x, 0) == np('tan')(x[0]), SEC2(x, 0) == 1 / (np('cos')(x[0]) * np('cos')(x[0]))]

def tanhsech2_def(c, x, n):
    return [z3.Implies(n >= 1, TANH(x, n) == c.Sum(z3.IntVal(1), n, lambda k: toR(k) * x[k] * SECH2(x, n - k)) / toR(n)),
            z3.Implies(n >= 1, SECH2(x, n) == -2 * c.Sum(z3.IntVal(1), n, lambda k: toR(k) * TANH(x, k) * TANH(x, n - k)) / toR(n)),
            TANH(x, 0) == np('tanh')(x[0]), SECH2(x, 0) == 1 - np('tanh')(x[0]) * np('tanh')(x[0])]

def _arc_def(Y, Z, y0, z0, zrule):
    # z * theta(y) = theta(x) ; theta(z) = zrule
    def d(c, x, n):
        return [z3.Implies(n >= 1, Y(x, n) == (toR(n) * x[n] - c.Sum(z3.IntVal(1), n - 1, lambda k: toR(k) * Y(x, k) * Z(x, n - k))) / (Z(x, 0) * toR(n))),
                z3.Implies(n >= 1, Z(x, n) == zrule(c, x, n) / toR(n)),
                Y(x, 0) == y0(x), Z(x, 0) == z0(x)]
    return d
arcsin_def = _arc_def(ASIN, ASINZ, lambda x: np('arcsin')(x[0]), lambda x: np('cos')(np('arcsin')(x[0])),
                      lambda c, x, n: -c.Sum(z3.IntVal(1), n, lambda k: toR(k) * ASIN(x, k) * x[n - k]))
arccos_def = _arc_def(ACOS, ACOSZ, lambda x: np('arccos')(x[0]), lambda x: -np('sin')(np('arccos')(x[0])),
                      lambda c, x, n: -c.Sum(z3.IntVal(1), n, lambda k: toR(k) * ACOS(x, k) * x[n - k]))
arctan_def = _arc_def(ATAN, ATANZ, lambda x: np('arctan')(x[0]), lambda x: 1 + x[0] * x[0],
                      lambda c, x, n: 2 * c.Sum(z3.IntVal(1), n, lambda k: toR(k) * x[k] * x[n - k]))

PW = F('pw', R, R, R)
def powr_def(c, x, r, n):
    # x * theta(y) = r * y * theta(x):  n x0 y[n] = r sum_{k=1}^{n} k x[k] y[n-k] - sum_{k=1}^{n-1} k y[k] x[n-k]
    # (solved for the n-th coefficient; x[0] != 0 and n >= 1 are in force wherever this is used)
    return [z3.Implies(n >= 1, POWR(x, r, n) == (r * c.Sum(z3.IntVal(1), n, lambda k: toR(k) * x[k] * POWR(x, r, n - k))
                       - c.Sum(z3.IntVal(1), n - 1, lambda k: toR(k) * POWR(x, r, k) * x[n - k])) / x[0] / toR(n)),
            POWR(x, r, 0) == PW(x[0], r)]

def pown_def(c, x, m, n):
    # repeated Cauchy product:  x^(*0) = 1 ;  x^(*1) = x ;  x^(*m) = x (*) x^(*(m-1)) for m >= 2
    return [z3.Implies(m == 0, POWN(x, m, n) == z3.If(n == 0, z3.RealVal(1), z3.RealVal(0))),
            z3.Implies(m == 1, POWN(x, m, n) == x[n]),
            z3.Implies(m >= 2, POWN(x, m, n) == c.Sum(z3.IntVal(0), n, lambda k: x[k] * POWN(x, m - 1, n - k)))]

def bfwf_def(c, x, fp, f0, n):
    return [z3.Implies(n >= 1, BFWF(x, fp, f0, n) == c.Sum(z3.IntVal(1), n, lambda k: toR(k) * x[k] * fp[n - k]) / toR(n)),
            BFWF(x, fp, f0, 0) == f0]


def causality_lemma(c, name, Ts, defs, extra_args=(), domain=lambda a: []):
    """Strong-induction step of the causality (degree-independence) lemma for the spec functions Ts (all defined by `defs`):
         (forall i <= n. a[i] = b[i])  and  (forall m < n. T(a,m) = T(b,m))   ==>   T(a,n) = T(b,n).
    By induction on n this gives: coefficient n of the spec depends on input coefficients of order <= n only (property C12),
    and it makes the spec functions extensional on the coefficients that exist."""
    a = z3.Const('a!caus_' + name, ARR); b = z3.Const('b!caus_' + name, ARR); n = z3.Int('n!caus'); i = z3.Int('i!caus'); m = z3.Int('m!caus')
    hyps = [n >= 0, z3.ForAll([i], z3.Implies(z3.And(0 <= i, i <= n), a[i] == b[i]))] + list(domain(a))
    for T in Ts: hyps.append(z3.ForAll([m], z3.Implies(z3.And(0 <= m, m < n), T(a, *extra_args, m) == T(b, *extra_args, m))))
    hyps += list(defs(c, a, n)) + list(defs(c, b, n))
    goal = z3.And([T(a, *extra_args, n) == T(b, *extra_args, n) for T in Ts])
    return ('causality of %s: coefficient n depends on input coefficients <= n only' % name, hyps, goal, ())


def causality_lemma2(c, name, T, defs, recursive=True, domain=lambda a, b: []):
    """two-array version (CONV, QUOT): T(a,b,n) depends on a[0..n], b[0..n] only"""
    a = z3.Const('a!c2_' + name, ARR); b = z3.Const('b!c2_' + name, ARR); a2 = z3.Const('a2!c2_' + name, ARR); b2 = z3.Const('b2!c2_' + name, ARR)
    n = z3.Int('n!caus'); i = z3.Int('i!caus'); m = z3.Int('m!caus')
    hyps = [n >= 0, z3.ForAll([i], z3.Implies(z3.And(0 <= i, i <= n), z3.And(a[i] == a2[i], b[i] == b2[i])))] + list(domain(a, b))
    if recursive: hyps.append(z3.ForAll([m], z3.Implies(z3.And(0 <= m, m < n), T(a, b, m) == T(a2, b2, m))))
    hyps += list(defs(c, a, b, n)) + list(defs(c, a2, b2, n))
    return ('causality of %s: coefficient n depends on input coefficients <= n only' % name, hyps, T(a, b, n) == T(a2, b2, n), ())


# ---------------------------------------------------------------------------------------------------------------------------------
# causal spec functions: coefficient n of T depends on the coefficients <= n of its array arguments only.  The induction step of each
# is a discharged lemma obligation (causality_lemma / causality_lemma2 in the kernel contracts); vc/dataflow.py uses instances of
# the resulting theorem.  value = (function, domain premises over the array arguments of the left application)
CAUSAL = {}
def _causal(T, dom=lambda *a: []): CAUSAL[T.name()] = (T, dom)
_causal(CONV); _causal(QUOT, lambda x, y: [y[0] != 0]); _causal(RECIP, lambda y: [y[0] != 0])
_causal(EXP); _causal(BFWF)
