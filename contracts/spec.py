"""Specification theory (DESIGN 4): spec functions over (coefficient array, order) -- none depends on D.

Each spec function is an uninterpreted z3 function with a *defining recursion* that is well-founded in the order
index (so the theory is consistent by construction).  `X_def(c, ..., n)` returns the instances of the definition at
order n (a list of formulas; they mention Sum records of c).  The same recursions, written over plain Python numbers,
are in bounded/specinterp.py (the oracle used for replay and for the bounded stand-ins)."""
import z3
I, R = z3.IntSort(), z3.RealSort()
ARR = z3.ArraySort(I, R)
toR = lambda t: z3.ToReal(t) if z3.is_int(t) else t


def F(name, *sorts): return z3.Function(name, *sorts)

CONV = F('CONV', ARR, ARR, I, R)        # Cauchy product        CONV(x,y,n) = sum_{k=0}^{n} x[k] y[n-k]
QUOT = F('QUOT', ARR, ARR, I, R)        # quotient x/y          y[0] Q(n) = x[n] - sum_{k=0}^{n-1} Q(k) y[n-k]
RECIP = F('RECIP', ARR, I, R)           # 1/y
SQRT = F('SQRT', ARR, I, R)
EXP = F('EXP', ARR, I, R); LOG = F('LOG', ARR, I, R)
SIN = F('SIN', ARR, I, R); COS = F('COS', ARR, I, R)
SINH = F('SINH', ARR, I, R); COSH = F('COSH', ARR, I, R)
TAN = F('TAN', ARR, I, R); SEC2 = F('SEC2', ARR, I, R)
TANH = F('TANH', ARR, I, R); SECH2 = F('SECH2', ARR, I, R)
ASIN = F('ASIN', ARR, I, R); ASINZ = F('ASINZ', ARR, I, R)
ACOS = F('ACOS', ARR, I, R); ACOSZ = F('ACOSZ', ARR, I, R)
ATAN = F('ATAN', ARR, I, R); ATANZ = F('ATANZ', ARR, I, R)
POWR = F('POWR', ARR, R, I, R)          # x ** r, real r
POWN = F('POWN', ARR, I, I, R)          # x ** m, integer m >= 0 (repeated Cauchy product)
BFWF = F('BFWF', ARR, ARR, R, I, R)     # "black f white f'" : y[0] = f0 ; n y[n] = sum_{k=1}^{n} k x[k] fp[n-k]

np = lambda nm: F('np_' + nm, R, R)


def conv_def(c, x, y, n):
    return [CONV(x, y, n) == c.Sum(z3.IntVal(0), n, lambda k: x[k] * y[n - k])]

def quot_def(c, x, y, n):
    return [y[0] * QUOT(x, y, n) == x[n] - c.Sum(z3.IntVal(0), n - 1, lambda k: QUOT(x, y, k) * y[n - k])]

def recip_def(c, y, n):
    return [y[0] * RECIP(y, n) == z3.If(n == 0, z3.RealVal(1), z3.RealVal(0)) - c.Sum(z3.IntVal(0), n - 1, lambda k: RECIP(y, k) * y[n - k])]

def sqrt_def(c, x, n):
    # y*y = x :  n = 0: SQRT(0) = np.sqrt(x0) ;  n>=1: 2 y0 y[n] = x[n] - sum_{k=1}^{n-1} y[k] y[n-k]
    return [z3.Implies(n >= 1, 2 * SQRT(x, 0) * SQRT(x, n) == x[n] - c.Sum(z3.IntVal(1), n - 1, lambda k: SQRT(x, k) * SQRT(x, n - k))),
            SQRT(x, 0) == np('sqrt')(x[0])]

def exp_def(c, x, n):
    return [z3.Implies(n >= 1, toR(n) * EXP(x, n) == c.Sum(z3.IntVal(1), n, lambda k: toR(k) * x[k] * EXP(x, n - k))),
            EXP(x, 0) == np('exp')(x[0])]

def log_def(c, x, n):
    # x * theta(y) = theta(x) :  n x[n] = sum_{k=1}^{n} k L(k) x[n-k]
    return [z3.Implies(n >= 1, toR(n) * LOG(x, n) == (toR(n) * x[n] - c.Sum(z3.IntVal(1), n - 1, lambda k: toR(k) * LOG(x, k) * x[n - k])) / x[0]),
            LOG(x, 0) == np('log')(x[0])]

def _pair_def(S, C, s0, c0, sign):
    def d(c, x, n):
        return [z3.Implies(n >= 1, toR(n) * S(x, n) == c.Sum(z3.IntVal(1), n, lambda k: toR(k) * x[k] * C(x, n - k))),
                z3.Implies(n >= 1, toR(n) * C(x, n) == c.Sum(z3.IntVal(1), n, lambda k: sign * toR(k) * x[k] * S(x, n - k))),
                S(x, 0) == np(s0)(x[0]), C(x, 0) == np(c0)(x[0])]
    return d
sincos_def = _pair_def(SIN, COS, 'sin', 'cos', -1)
sinhcosh_def = _pair_def(SINH, COSH, 'sinh', 'cosh', 1)

def tansec2_def(c, x, n):
    return [z3.Implies(n >= 1, toR(n) * TAN(x, n) == c.Sum(z3.IntVal(1), n, lambda k: toR(k) * x[k] * SEC2(x, n - k))),
            z3.Implies(n >= 1, toR(n) * SEC2(x, n) == 2 * c.Sum(z3.IntVal(1), n, lambda k: toR(k) * TAN(x, k) * TAN(x, n - k))),
            TAN(x, 0) == np('tan')(x[0]), SEC2(x, 0) == 1 / (np('cos')(x[0]) * np('cos')(x[0]))]

def tanhsech2_def(c, x, n):
    return [z3.Implies(n >= 1, toR(n) * TANH(x, n) == c.Sum(z3.IntVal(1), n, lambda k: toR(k) * x[k] * SECH2(x, n - k))),
            z3.Implies(n >= 1, toR(n) * SECH2(x, n) == -2 * c.Sum(z3.IntVal(1), n, lambda k: toR(k) * TANH(x, k) * TANH(x, n - k))),
            TANH(x, 0) == np('tanh')(x[0]), SECH2(x, 0) == 1 - np('tanh')(x[0]) * np('tanh')(x[0])]

def _arc_def(Y, Z, y0, z0, zrule):
    # z * theta(y) = theta(x) ; theta(z) = zrule
    def d(c, x, n):
        return [z3.Implies(n >= 1, toR(n) * Z(x, 0) * Y(x, n) == toR(n) * x[n] - c.Sum(z3.IntVal(1), n - 1, lambda k: toR(k) * Y(x, k) * Z(x, n - k))),
                z3.Implies(n >= 1, toR(n) * Z(x, n) == zrule(c, x, n)),
                Y(x, 0) == y0(x), Z(x, 0) == z0(x)]
    return d
arcsin_def = _arc_def(ASIN, ASINZ, lambda x: np('arcsin')(x[0]), lambda x: np('cos')(np('arcsin')(x[0])),
                      lambda c, x, n: -c.Sum(z3.IntVal(1), n, lambda k: toR(k) * ASIN(x, k) * x[n - k]))
arccos_def = _arc_def(ACOS, ACOSZ, lambda x: np('arccos')(x[0]), lambda x: -np('sin')(np('arccos')(x[0])),
                      lambda c, x, n: -c.Sum(z3.IntVal(1), n, lambda k: toR(k) * ACOS(x, k) * x[n - k]))
arctan_def = _arc_def(ATAN, ATANZ, lambda x: np('arctan')(x[0]), lambda x: 1 + x[0] * x[0],
                      lambda c, x, n: 2 * c.Sum(z3.IntVal(1), n, lambda k: toR(k) * x[k] * x[n - k]))

PW = F('pw', R, R, R)
def powr_def(c, x, r, n):
    # x * theta(y) = r * y * theta(x):  n x0 y[n] = r sum_{k=1}^{n} k x[k] y[n-k] - sum_{k=1}^{n-1} k y[k] x[n-k]
    # (solved for the n-th coefficient; x[0] != 0 and n >= 1 are in force wherever this is used)
    return [z3.Implies(n >= 1, POWR(x, r, n) == (r * c.Sum(z3.IntVal(1), n, lambda k: toR(k) * x[k] * POWR(x, r, n - k))
                       - c.Sum(z3.IntVal(1), n - 1, lambda k: toR(k) * POWR(x, r, k) * x[n - k])) / x[0] / toR(n)),
            POWR(x, r, 0) == PW(x[0], r)]

def pown_def(c, x, m, n):
    # repeated Cauchy product:  x^(*0) = 1 ;  x^(*1) = x ;  x^(*m) = x (*) x^(*(m-1)) for m >= 2
    return [z3.Implies(m == 0, POWN(x, m, n) == z3.If(n == 0, z3.RealVal(1), z3.RealVal(0))),
            z3.Implies(m == 1, POWN(x, m, n) == x[n]),
            z3.Implies(m >= 2, POWN(x, m, n) == c.Sum(z3.IntVal(0), n, lambda k: x[k] * POWN(x, m - 1, n - k)))]

def bfwf_def(c, x, fp, f0, n):
    return [z3.Implies(n >= 1, toR(n) * BFWF(x, fp, f0, n) == c.Sum(z3.IntVal(1), n, lambda k: toR(k) * x[k] * fp[n - k])),
            BFWF(x, fp, f0, 0) == f0]
