"""Contracts for the element-wise pullbacks `_pb_*` (DESIGN 6 / A.4, coefficient-level form).

For y = f(x) with series-level tangent  ydot = g (*) xdot  (A1: g = series of f'(x(t))), the adjoint identity
<xbar,v> = <ybar, g (*) v> mod t^D is equivalent, by associativity/commutativity of the truncated Cauchy product, to
        xbar' = xbar + ybar (*) g .
Each contract states exactly that (out'[j] = out[j] + sum_k ybar[k] g[j-k]) with g written through the forward spec
functions / the callee contracts, plus the frame: only `out` is modified (forward values x, y and the seed ybar are not)."""
import z3
from vc.contract import Contract, scalar_of
from vc.engine import IntV
from . import spec as S
from .spec import toR
from .kernels import A
from bounded import specinterp as SI

REG = {}
def register(cls):
    inst = cls(); REG[inst.qual.split('.')[-1]] = inst; return cls


class PB(Contract):
    arrays = ('ybar_data', 'x_data', 'y_data', 'out'); modifies = ('out',); returns = 'any'
    cfgs = {'distinct': {}}
    property_ids = ('C03', 'C06', 'C14')
    skolem_instances = True
    def G(self, c, j): raise NotImplementedError            # the increment  (ybar (*) g)[j]
    def defs(self, c, n): return []
    def ensures(self, c):
        o0 = c.pre['out']; o = c.cur('out')
        return [("xbar' = xbar + ybar (*) f'(x)", c.forall(0, c.D, lambda j: o[j] == o0[j] + self.G(c, j)))]
    def spec_instances(self, c, n): return self.defs(c, n)
    def gnum(self, inp, scal): raise NotImplementedError
    def oracle(self, inp, scal, cfg): return {'out': SI.add(inp['out'], self.gnum(inp, scal))}


@register
class PbExp(PB):
    qual = A('_pb_exp')
    def G(self, c, j): return S.CONV(c.pre['ybar_data'], c.pre['y_data'], j)
    def defs(self, c, n): return S.conv_def(c, c.pre['ybar_data'], c.pre['y_data'], n)
    def gnum(self, inp, scal): return SI.conv(inp['ybar_data'], inp['y_data'])

@register
class PbLog(PB):
    qual = A('_pb_log'); returns = 'out'
    def requires(self, c): return [c.pre['x_data'][0] != 0]
    def G(self, c, j): return S.QUOT(c.pre['ybar_data'], c.pre['x_data'], j)
    def gnum(self, inp, scal): return SI.quot(inp['ybar_data'], inp['x_data'])

@register
class PbSqrt(PB):
    qual = A('_pb_sqrt'); returns = 'out'
    def requires(self, c): return [c.pre['y_data'][0] != 0]
    def G(self, c, j): return S.QUOT(c.pre['ybar_data'], c.pre['y_data'], j) / 2
    def gnum(self, inp, scal): return SI.scale(SI.quot(inp['ybar_data'], inp['y_data']), 0.5)

@register
class PbSquare(PB):
    qual = A('_pb_square')
    def G(self, c, j): return 2 * S.CONV(c.pre['ybar_data'], c.pre['x_data'], j)
    def defs(self, c, n): return S.conv_def(c, c.pre['ybar_data'], c.pre['x_data'], n)
    def gnum(self, inp, scal): return SI.scale(SI.conv(inp['ybar_data'], inp['x_data']), 2)

@register
class PbSinCos(Contract):
    qual = A('_pb_sincos'); arrays = ('sbar_data', 'cbar_data', 'x_data', 's_data', 'c_data', 'out'); modifies = ('out',); returns = 'any'
    cfgs = {'distinct': {}}; property_ids = ('C03', 'C06', 'C14'); skolem_instances = True
    def ensures(self, c):
        o0 = c.pre['out']; o = c.cur('out'); p = c.pre
        return [("xbar' = xbar + sbar (*) c - cbar (*) s", c.forall(0, c.D, lambda j: o[j] == o0[j] + S.CONV(p['sbar_data'], p['c_data'], j) - S.CONV(p['cbar_data'], p['s_data'], j)))]
    def spec_instances(self, c, n): p = c.pre; return S.conv_def(c, p['sbar_data'], p['c_data'], n) + S.conv_def(c, p['cbar_data'], p['s_data'], n)
    def oracle(self, inp, scal, cfg): return {'out': SI.add(inp['out'], SI.sub(SI.conv(inp['sbar_data'], inp['c_data']), SI.conv(inp['cbar_data'], inp['s_data'])))}

@register
class PbNegative(PB):
    qual = A('_pb_negative')
    def G(self, c, j): return -c.pre['ybar_data'][j]
    def gnum(self, inp, scal): return [-v for v in inp['ybar_data']]



class FrameOnly(Contract):
    """pullbacks whose adjoint formula involves arrays produced by nested callees: the proved clause is the frame
    (`modifies` = out only: the forward values and the seed are not written) and the callee preconditions;
    the adjoint formula itself is checked by the bounded adjoint-identity contract of C03"""
    arrays = ('ybar_data', 'x_data', 'y_data', 'out'); modifies = ('out',); returns = 'any'
    cfgs = {'distinct': {}}
    property_ids = ('C06', 'C14')
    dom = lambda self, x: []
    def requires(self, c): return self.dom(c.pre['x_data'])

def lam(f):
    i = z3.FreshInt('i!lam'); return z3.Lambda([i], f(i))
def plus1(a): return lam(lambda i: z3.If(i == 0, a[i] + 1, a[i]))
R_ = z3.RealSort()
C2 = 2 / z3.Function('m_sqrt', R_, R_)(z3.Real('math_pi'))


class PBFlow(Contract):
    """pullbacks that combine other kernels: xbar' = xbar + ybar (*) g with g = f'(x) written as a composition of spec functions
    over closed lambda arrays; proved for all D through the spec-view chain (vc/dataflow.py) over the callee contracts"""
    arrays = ('ybar_data', 'x_data', 'y_data', 'out'); modifies = ('out',); returns = 'any'
    cfgs = {'distinct': {}}
    property_ids = ('C03', 'C06', 'C14')
    dataflow = True; timeout_ms = 6000; cex_D = ()
    dom = lambda self, x: []
    def requires(self, c): return self.dom(c.pre['x_data'])
    def g(self, c): raise NotImplementedError               # closed lambda array
    def incr(self, c, j): return S.CONV(c.pre['ybar_data'], self.g(c), j)
    def ensures(self, c):
        o0 = c.pre['out']; o = c.cur('out')
        return [("xbar' = xbar + ybar (*) g,  g = %s" % self.doc, c.forall(0, c.D, lambda j: o[j] == o0[j] + self.incr(c, j)))]

@register
class PbTanSec(PBFlow):
    qual = A('_pb_tansec'); arrays = ('ybar_data', 'zbar_data', 'x_data', 'y_data', 'z_data', 'out'); doc = "(ybar + 2 zbar (*) y) (*) z"
    def incr(self, c, j):
        p = c.pre; zb2 = lam(lambda i: 2 * p['zbar_data'][i])
        T = lam(lambda i: S.CONV(zb2, p['y_data'], i) + p['ybar_data'][i])
        return S.CONV(T, p['z_data'], j)
    def oracle(self, inp, scal, cfg):
        T = SI.add(inp['ybar_data'], SI.scale(SI.conv(inp['zbar_data'], inp['y_data']), 2))
        return {'out': SI.add(inp['out'], SI.conv(T, inp['z_data']))}

@register
class PbReciprocal(PBFlow):
    qual = A('_pb_reciprocal'); dom = lambda self, x: [x[0] != 0]; doc = "-1/x^2"
    def g(self, c):
        x = c.pre['x_data']; sq = lam(lambda i: S.CONV(x, x, i)); return lam(lambda i: -S.RECIP(sq, i))
    def oracle(self, inp, scal, cfg):
        g = [-v for v in SI.recip(SI.conv(inp['x_data'], inp['x_data']))]
        return {'out': SI.add(inp['out'], SI.conv(inp['ybar_data'], g))}

@register
class PbExpm1(PBFlow):
    qual = A('_pb_expm1'); doc = "exp(x)"
    def g(self, c): x = c.pre['x_data']; return lam(lambda i: S.EXP(x, i))
    def oracle(self, inp, scal, cfg): return {'out': SI.add(inp['out'], SI.conv(inp['ybar_data'], SI.exp(inp['x_data'])))}

@register
class PbLog1p(PBFlow):
    qual = A('_pb_log1p'); returns = 'out'; dom = lambda self, x: [x[0] + 1 != 0]; doc = "xbar + ybar / (1 + x)"
    def incr(self, c, j): return S.QUOT(c.pre['ybar_data'], plus1(c.pre['x_data']), j)
    def oracle(self, inp, scal, cfg):
        x1 = [inp['x_data'][0] + 1] + list(inp['x_data'][1:]); return {'out': SI.add(inp['out'], SI.quot(inp['ybar_data'], x1))}

@register
class PbErf(PBFlow):
    qual = A('_pb_erf'); doc = "2/sqrt(pi) exp(-x^2)"
    def g(self, c):
        x = c.pre['x_data']; nsq = lam(lambda i: -S.CONV(x, x, i)); return lam(lambda i: C2 * S.EXP(nsq, i))
    def oracle(self, inp, scal, cfg):
        import math; x = inp['x_data']
        return {'out': SI.add(inp['out'], SI.conv(inp['ybar_data'], SI.scale(SI.exp([-v for v in SI.conv(x, x)]), 2 / math.sqrt(math.pi))))}

@register
class PbErfi(PBFlow):
    qual = A('_pb_erfi'); doc = "2/sqrt(pi) exp(x^2)"
    def g(self, c):
        x = c.pre['x_data']; sq = lam(lambda i: S.CONV(x, x, i)); return lam(lambda i: C2 * S.EXP(sq, i))
    def oracle(self, inp, scal, cfg):
        import math; x = inp['x_data']
        return {'out': SI.add(inp['out'], SI.conv(inp['ybar_data'], SI.scale(SI.exp(SI.conv(x, x)), 2 / math.sqrt(math.pi))))}

@register
class PbLogit(PBFlow):
    qual = A('_pb_logit'); dom = lambda self, x: [x[0] - x[0] * x[0] != 0]; doc = "1/(x - x^2)"
    def g(self, c):
        x = c.pre['x_data']; d = lam(lambda i: x[i] - S.CONV(x, x, i)); return lam(lambda i: S.RECIP(d, i))
    def sample_x0(self, name, rng): return round(rng.uniform(0.2, 0.8) * 16) / 16
    def oracle(self, inp, scal, cfg):
        x = inp['x_data']; return {'out': SI.add(inp['out'], SI.conv(inp['ybar_data'], SI.recip(SI.sub(x, SI.conv(x, x)))))}

@register
class PbExpit(PBFlow):
    qual = A('_pb_expit'); dom = lambda self, x: [S.np('exp')(x[0]) + 1 != 0]; doc = "b - b^2, b = 1/(1 + exp(x))"
    def g(self, c):
        x = c.pre['x_data']; e = lam(lambda i: S.EXP(x, i)); b = lam(lambda i: S.RECIP(plus1(e), i)); return lam(lambda i: b[i] - S.CONV(b, b, i))
    def oracle(self, inp, scal, cfg):
        e = SI.exp(inp['x_data']); b = SI.recip([e[0] + 1] + list(e[1:]))
        return {'out': SI.add(inp['out'], SI.conv(inp['ybar_data'], SI.sub(b, SI.conv(b, b))))}

@register
class PbAbsolute(PB):
    """y = |x| away from the kink: xbar' = xbar + sign(x0) ybar   (the derivative series is the constant sign(x0))"""
    qual = A('_pb_absolute'); dataflow = True; timeout_ms = 8000; cex_D = ()
    def requires(self, c): return [c.pre['x_data'][0] != 0]
    def sg(self, c): x = c.pre['x_data']; return z3.If(x[0] > 0, z3.RealVal(1), z3.If(x[0] < 0, z3.RealVal(-1), z3.RealVal(0)))
    def G(self, c, j): return self.sg(c) * c.pre['ybar_data'][j]
    def fp(self, c): return c.local('fprime_data')
    def defs(self, c, n):
        try: fp = self.fp(c)
        except Exception: return []
        return S.conv_def(c, c.pre['ybar_data'], fp, n)
    def invariants(self):
        def inv0(c, d):
            fp = c.local('fprime_data')
            return [c.forall(0, d, lambda j: fp[j] == z3.If(j == 0, self.sg(c), z3.RealVal(0)))] + c.unchanged('x_data', 'y_data', 'ybar_data', 'out')
        return {0: inv0}
    def gnum(self, inp, scal): sg = 1.0 if inp['x_data'][0] > 0 else -1.0; return SI.scale(inp['ybar_data'], sg)

@register
class PbSign(PB):
    """y = sign(x) away from the kink: the derivative vanishes, xbar is unchanged"""
    qual = A('_pb_sign'); dataflow = True; timeout_ms = 8000; cex_D = ()
    def G(self, c, j): return z3.RealVal(0)
    def defs(self, c, n): return S.conv_def(c, c.pre['ybar_data'], z3.K(z3.IntSort(), z3.RealVal(0)), n)
    def gnum(self, inp, scal): return [0.0 for _ in inp['ybar_data']]

@register
class PbPowReal(Contract):
    """y = x**r:  xbar' = xbar + ybar (*) (r x^(r-1)).  Integer exponents r >= 1 use the repeated product x^(*(r-1)); every other exponent
    uses r * y / x (series quotient), as the code does.  r = 0 leaves xbar unchanged."""
    qual = A('_pb_pow_real'); arrays = ('ybar_data', 'x_data', 'y_data', 'out'); scalars = {'r': 'real'}; modifies = ('out',); returns = 'any'
    cfgs = {'int0': {'r': 0}, 'int1': {'r': 1}, 'int2': {'r': 2}, 'int3': {'r': 3}, 'int_ge4': {'r': 'int'}, 'real': {'r': 'real'}, 'int_neg': {'r': 'int'}}
    property_ids = ('C03', 'C06', 'C14')
    dataflow = True; timeout_ms = 6000; cex_D = ()
    def cfg_assumptions(self, c, cfg):
        r = scalar_of(c, 'r')
        return [r.t >= 4] if cfg == 'int_ge4' else ([r.t < 0] if cfg == 'int_neg' else [])
    def requires(self, c):
        cfg = self._cfgname(c)
        return [c.pre['x_data'][0] != 0] if cfg in ('real', 'int_neg') else []
    def _cfgname(self, c):
        from vc.contract import cfgname_holder
        r = scalar_of(c, 'r')
        if isinstance(r, IntV):
            v = z3.simplify(r.t)
            if z3.is_int_value(v): return {0: 'int0', 1: 'int1', 2: 'int2', 3: 'int3'}.get(v.as_long(), 'int_ge4' if v.as_long() >= 4 else 'int_neg')
            return 'int_ge4' if c.ex.entails(r.t >= 4) is True else 'int_neg'
        return 'real'
    def ensures(self, c):
        p = c.pre; o0 = p['out']; o = c.cur('out'); x = p['x_data']; r = scalar_of(c, 'r'); cfg = self._cfgname(c)
        if cfg == 'int0': return [("r = 0: xbar unchanged", c.forall(0, c.D, lambda j: o[j] == o0[j]))]
        if cfg in ('real', 'int_neg'):
            rt = toR(r.t); g = lam(lambda i: S.QUOT(p['y_data'], x, i))
            return [("xbar' = xbar + r * (ybar (*) (y / x))", c.forall(0, c.D, lambda j: o[j] == o0[j] + rt * S.CONV(p['ybar_data'], g, j)))]
        rt = r.t
        g = lam(lambda i: toR(rt) * S.POWN(x, rt - 1, i))
        return [("xbar' = xbar + ybar (*) (r x^(*(r-1)))", c.forall(0, c.D, lambda j: o[j] == o0[j] + S.CONV(p['ybar_data'], g, j)))]
    def native_scalars(self, cfg, rng):
        self._cfg = cfg
        return {'r': {'real': rng.choice([2.5, 0.5, -1.5]), 'int0': 0, 'int1': 1, 'int2': 2, 'int3': 3, 'int_ge4': rng.choice([4, 5, 8, 17]), 'int_neg': rng.choice([-1, -2, -3])}[cfg]}
    def sample_x0(self, name, rng): return round(rng.uniform(0.3, 0.9) * 16) / 16
    def oracle(self, inp, scal, cfg):
        r = scal['r']; x = inp['x_data']
        if cfg == 'int0': return {'out': list(inp['out'])}
        if cfg in ('real', 'int_neg'): g = SI.scale(SI.quot(inp['y_data'], x), r)
        else: g = SI.scale(SI.pown(x, r - 1), r)
        return {'out': SI.add(inp['out'], SI.conv(inp['ybar_data'], g))}
