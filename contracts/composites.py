"""Composite forward kernels and the generic helpers, verified in *unrolled* mode (bounded in D, symbolic in all coefficient values):
the real function is executed symbolically for each concrete D with callee kernels entering through their contracts, and the
result must equal the coefficients computed by the independent spec interpreter (bounded/specinterp.py) run on solver terms."""
import math, z3
from vc.contract import Contract, scalar_of
from vc.engine import DER, IntV, ival
from . import spec as S
from .kernels import A, EvalSlowGeneric, pwr_def
from bounded import specinterp as SI

REG = {}
def register(cls):
    inst = cls(); REG[inst.qual.split('.')[-1]] = inst; return cls


class ZFn:
    """base-point functions as the same uninterpreted symbols the executor uses"""
    def __getattr__(self, name): return lambda v: S.np(name)(v)
ZFN = ZFn()
SQRTPI = z3.Function('m_sqrt', z3.RealSort(), z3.RealSort())(z3.Real('math_pi'))


class Composite(Contract):
    arrays = ('x_data', 'out'); modifies = ('out',); returns = 'out'
    cfgs = {'distinct': {}, 'out_none': {'out': None}}
    bounded_D = (1, 2, 3); bounded_D_thorough = (1, 2, 3)
    property_ids = ('C01', 'C14')
    f0tag = None
    def dom(self, x): return []
    def requires(self, c): return self.dom(c.pre['x_data'])
    def expected(self, xs, f0): raise NotImplementedError           # list of solver terms, from the spec interpreter
    def f0(self, c): return DER(self.f0tag)(z3.IntVal(0), c.pre['x_data'][0])
    def ensures(self, c):
        D = ival(c.D)
        if D is None:
            # symbolic D (this contract used as a CALLEE by an all-D caller): the postcondition of the all-D contract of the same function
            from . import composites_sym
            k = self.qual.split('.')[-1] + '@allD'
            if k in composites_sym.REG: return composites_sym.REG[k].ensures(c)
            raise Exception('composite contracts are verified in unrolled mode only')
        x = c.pre['x_data']; xs = [x[z3.IntVal(i)] for i in range(D)]; o = c.outarr()
        exp = self.expected(xs, self.f0(c))
        return [('out[%d] = coefficient %d of f(x(t)) (spec interpreter on solver terms)' % (d, d), o[z3.IntVal(d)] == exp[d]) for d in range(D)]
    pyf = None
    def oracle(self, inp, scal, cfg):
        x = inp['x_data']; return {self.out_key(cfg): self.expected_num(x)}


def comp(name, tag, expected, dom=lambda x: [], num=None, D=(1, 2, 3, 4), props=('C01', 'C14')):
    cls = type('C_' + name, (Composite,), {'qual': A(name), 'f0tag': tag, 'expected': staticmethod(expected), 'dom': staticmethod(dom), 'expected_num': staticmethod(num), 'bounded_D': D, 'bounded_D_thorough': D, 'property_ids': props})
    return register(cls)

c2 = lambda: 2 / SQRTPI
comp('_erf', 'nthderiv.erf', lambda xs, f0: SI.bfwf(xs, SI.scale(SI.exp([-v for v in SI.conv(xs, xs)], ZFN), c2()), f0),
     num=lambda x: SI.bfwf(x, SI.scale(SI.exp([-v for v in SI.conv(x, x)]), 2 / math.sqrt(math.pi)), math.erf(x[0])), D=(1, 2, 3))
comp('_erfi', 'nthderiv.erfi', lambda xs, f0: SI.bfwf(xs, SI.scale(SI.exp(SI.conv(xs, xs), ZFN), c2()), f0),
     num=lambda x: SI.bfwf(x, SI.scale(SI.exp(SI.conv(x, x)), 2 / math.sqrt(math.pi)), __import__('scipy.special', fromlist=['erfi']).erfi(x[0])))
comp('_log1p', 'numpy.log1p', lambda xs, f0: SI.bfwf(xs, SI.recip([xs[0] + 1] + list(xs[1:])), f0), dom=lambda x: [x[0] + 1 != 0],
     num=lambda x: SI.bfwf(x, SI.recip([x[0] + 1] + list(x[1:])), math.log1p(x[0])), D=(1, 2, 3, 4))
comp('_logit', 'scipy.special.logit', lambda xs, f0: SI.bfwf(xs, SI.recip(SI.sub(xs, SI.conv(xs, xs))), f0), dom=lambda x: [x[0] - x[0] * x[0] != 0],
     num=lambda x: SI.bfwf(x, SI.recip(SI.sub(x, SI.conv(x, x))), math.log(x[0] / (1 - x[0]))), D=(1, 2))
def _expit_fp(xs, fn):
    e = SI.exp(xs, fn); b = SI.recip([e[0] + 1] + list(e[1:])); return SI.sub(b, SI.conv(b, b))
comp('_expit', 'scipy.special.expit', lambda xs, f0: SI.bfwf(xs, _expit_fp(xs, ZFN), f0), dom=lambda x: [S.np('exp')(x[0]) + 1 != 0],
     num=lambda x: SI.bfwf(x, _expit_fp(x, SI.FN), 1 / (1 + math.exp(-x[0]))), D=(1, 2))


# ---- wrappers of the Faa di Bruno helper: postcondition = the helper's contract instantiated with the right derivative family
class FaaWrapper(Contract):
    arrays = ('x_data', 'out'); modifies = ('out',); returns = 'out'; cfgs = {'distinct': {}}
    bounded_D = (1, 2, 3, 4); property_ids = ('C01', 'C14')
    tag = None; pre_scalars = ()
    def requires(self, c): return []
    def ensures(self, c):
        D = ival(c.D); x = c.pre['x_data']; o = c.outarr()
        tag = self.tag + ''.join('|' + str(scalar_of(c, s).t) for s in self.pre_scalars)
        der = lambda n: DER(tag)(z3.IntVal(n), x[0])
        from vc.engine import FACT
        out = [('y[0] = f(x0)', o[z3.IntVal(0)] == der(0))]
        for k in range(1, D):
            rhs = sum((der(n) / z3.ToReal(FACT(z3.IntVal(n))) * EvalSlowGenericPWR(x, n, k) for n in range(1, D)), z3.RealVal(0))
            out.append(('y[%d] = sum_n f^(n)(x0)/n! [t^%d](x-x0)^n' % (k, k), o[z3.IntVal(k)] == rhs))
        return out
    def concrete_instances(self, c, D):
        from vc.engine import FACT
        x = c.pre['x_data']; out = [FACT(z3.IntVal(n)) == math.factorial(n) for n in range(0, D + 1)]
        for n in range(1, D):
            for k in range(1, D): out += pwr_def(c, x, z3.IntVal(n), z3.IntVal(k))
        return out
from .kernels import PWR
def EvalSlowGenericPWR(x, n, k): return PWR(x, z3.IntVal(n), z3.IntVal(k))

@register
class Psi(FaaWrapper): qual = A('_psi'); tag = 'nthderiv.psi'
@register
class Gammaln(FaaWrapper): qual = A('_gammaln'); tag = 'nthderiv.gammaln'
@register
class Polygamma(FaaWrapper): qual = A('_polygamma'); tag = 'nthderiv.polygamma'; scalars = {'m': 'int'}; pre_scalars = ('m',); cfgs = {'distinct': {}, 'out_none': {'out': None}}
@register
class Hyperu(FaaWrapper): qual = A('_hyperu'); tag = 'nthderiv.hyperu'; scalars = {'a': 'real', 'b': 'real'}; pre_scalars = ('a', 'b'); cfgs = {'distinct': {}, 'out_none': {'out': None}}


# truncation degrees at which the unrolled obligations discharge quickly and reliably (non-linear identities get hard fast)
for _k, _D in {'_erf': (1, 2, 3), '_erfi': (1, 2, 3), '_log1p': (1, 2, 3), '_logit': (1, 2), '_expit': (1, 2)}.items():
    type(REG[_k]).bounded_D = _D; type(REG[_k]).bounded_D_thorough = _D


@register
class OdeSolutions(Contract):
    """Griewank-Walther Prop. 13.1: v solves b(u) v' - a(u) v = c(u); the helper fills v[1..] from v[0] (unrolled mode)"""
    qual = '_taylor_polynomials_of_ode_solutions'; arrays = ('a_data', 'b_data', 'c_data', 'u_data', 'v_data'); modifies = ('v_data',); returns = 'v_data'
    cfgs = {'distinct': {}}; bounded_D = (1, 2, 3); bounded_D_thorough = (1, 2, 3, 4); property_ids = ('C01', 'C14')
    def requires(self, c): return [c.pre['b_data'][0] != 0]
    def ensures(self, c):
        D = ival(c.D); p = c.pre; L = lambda nm: [p[nm][z3.IntVal(i)] for i in range(D)]
        exp = SI.ode_solution(L('a_data'), L('b_data'), L('c_data'), L('u_data'), p['v_data'][z3.IntVal(0)]); v = c.cur('v_data')
        return [('v[%d] = coefficient %d of the ODE solution' % (d, d), v[z3.IntVal(d)] == exp[d]) for d in range(D)]
    def sample_x0(self, name, rng): return round(rng.uniform(0.4, 1.2) * 16) / 16
    def oracle(self, inp, scal, cfg): return {'v_data': SI.ode_solution(inp['a_data'], inp['b_data'], inp['c_data'], inp['u_data'], inp['v_data'][0])}


@register
class Dawsn(Contract):
    qual = A('_dawsn'); arrays = ('x_data', 'out'); modifies = ('out',); returns = 'out'
    cfgs = {'distinct': {}, 'out_none': {'out': None}}; bounded_D = (1, 2, 3, 4); bounded_D_thorough = (1, 2, 3, 4); property_ids = ('C01', 'C14')
    def ensures(self, c):
        D = ival(c.D); x = c.pre['x_data']; xs = [x[z3.IntVal(i)] for i in range(D)]; o = c.outarr()
        one = [z3.RealVal(1)] + [z3.RealVal(0)] * (D - 1)
        f0 = DER('scipy.special.dawsn')(z3.IntVal(0), x[z3.IntVal(0)])
        exp = SI.ode_solution([-2 * v for v in xs], one, one, xs, f0)          # F' + 2 x F = 1
        return [('out[%d] = coefficient %d of dawsn(x(t))' % (d, d), o[z3.IntVal(d)] == exp[d]) for d in range(D)]
    def oracle(self, inp, scal, cfg):
        import scipy.special
        x = inp['x_data']; D = len(x); one = [1.0] + [0.0] * (D - 1)
        return {self.out_key(cfg): SI.ode_solution([-2 * v for v in x], one, one, x, float(scipy.special.dawsn(x[0])))}


# ---- pullbacks of the Faa di Bruno family (unrolled mode): xbar' = xbar + ybar (*) g, g = the Taylor polynomial of f'(x(t)) computed by the
# helper for the derivative family of f' (psi' = polygamma(1,.), gammaln' = polygamma(0,.), polygamma(m,.)' = polygamma(m+1,.), U(a,b,.)' = -a U(a+1,b+1,.))
class PbFaa(Contract):
    arrays = ('ybar_data', 'x_data', 'y_data', 'out'); modifies = ('out',); returns = 'any'; cfgs = {'distinct': {}}
    bounded_D = (1, 2, 3); bounded_D_thorough = (1, 2, 3); property_ids = ('C03', 'C06', 'C14')          # D = 4 is not decided within the budget
    def gtag(self, c): raise NotImplementedError
    def gscale(self, c): return z3.RealVal(1)
    def ensures(self, c):
        from vc.engine import FACT
        D = ival(c.D); x = c.pre['x_data']; yb = c.pre['ybar_data']; o0 = c.pre['out']; o = c.cur('out'); tag = self.gtag(c); sc = self.gscale(c)
        der = lambda n: DER(tag)(z3.IntVal(n), x[0])
        g = [der(0)] + [sum((der(n) / z3.ToReal(FACT(z3.IntVal(n))) * EvalSlowGenericPWR(x, n, k) for n in range(1, D)), z3.RealVal(0)) for k in range(1, D)]
        g = [sc * t for t in g]
        return [("xbar'[%d] = xbar[%d] + sum_k ybar[k] g[%d-k]" % (j, j, j), o[z3.IntVal(j)] == o0[z3.IntVal(j)] + sum((yb[z3.IntVal(k)] * g[j - k] for k in range(j + 1)), z3.RealVal(0))) for j in range(D)]
    def concrete_instances(self, c, D):
        from vc.engine import FACT
        x = c.pre['x_data']; out = [FACT(z3.IntVal(n)) == math.factorial(n) for n in range(0, D + 1)]
        for n in range(1, D):
            for k in range(1, D): out += pwr_def(c, x, z3.IntVal(n), z3.IntVal(k))
        return out

def _pbfaa_oracle(self, inp, scal, cfg):
    x = inp['x_data']; D = len(x); g = SI.compose_faa(x, [self.gder(n, float(x[0]), scal) for n in range(D)])
    return {'out': SI.add(inp['out'], SI.conv(inp['ybar_data'], g))}
PbFaa.oracle = _pbfaa_oracle
PbFaa.sample_x0 = lambda self, name, rng: round(rng.uniform(0.6, 2.0) * 16) / 16
def _pg(m, x):
    import scipy.special as sp
    return float(sp.polygamma(m, x))

@register
class PbPsi(PbFaa):
    qual = A('_pb_psi')
    def gder(self, n, x0, scal): return _pg(1 + n, x0)
    def gtag(self, c): return 'nthderiv.polygamma|1'
@register
class PbGammaln(PbFaa):
    qual = A('_pb_gammaln')
    def gder(self, n, x0, scal): return _pg(n, x0)
    def gtag(self, c): return 'nthderiv.polygamma|0'
@register
class PbPolygamma(PbFaa):
    qual = A('_pb_polygamma'); scalars = {'m': 'int'}
    def native_scalars(self, cfg, rng): return {'m': rng.choice([0, 1, 2])}
    def gder(self, n, x0, scal): return _pg(scal['m'] + 1 + n, x0)
    def gtag(self, c): return 'nthderiv.polygamma|' + str(scalar_of(c, 'm').t + 1)
@register
class PbHyperu(PbFaa):
    qual = A('_pb_hyperu'); scalars = {'a': 'real', 'b': 'real'}; bounded_D = (1, 2); bounded_D_thorough = (1, 2)      # order 2 needs products of three symbolic factors: not decided reliably
    def gtag(self, c): return 'nthderiv.hyperu|' + str(scalar_of(c, 'a').t + 1.) + '|' + str(scalar_of(c, 'b').t + 1.)
    def gscale(self, c): return -scalar_of(c, 'a').t
    def native_scalars(self, cfg, rng): return {'a': rng.choice([0.5, 1.5]), 'b': rng.choice([0.75, 2.25])}
    def gder(self, n, x0, scal):
        import scipy.special as sp
        a, b = scal['a'] + 1., scal['b'] + 1.
        return float(-scal['a'] * (-1) ** n * sp.poch(a, n) * sp.hyperu(a + n, b + n, x0))
