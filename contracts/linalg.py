"""Contracts for the matrix kernels (DESIGN A.3): cells are elements of an uninterpreted non-commutative ring `Mat`
(matrices of any size at once); numpy.dot / numpy.linalg.inv / solve enter through their algebraic contracts (A5)."""
import z3
from vc.contract import Contract, scalar_of
from vc.engine import MatAlg, I
REG = {}
def register(cls):
    inst = cls(); REG[inst.qual.split('.')[-1]] = inst; return cls
A = lambda n: 'RawAlgorithmsMixIn.' + n

M = MatAlg()
MARR = z3.ArraySort(I, M.sort)
MCONV = z3.Function('MCONV', MARR, MARR, I, M.sort)          # sum_{k=0}^{n} dot(x[k], y[n-k])
MOUTER = z3.Function('MOUTERCONV', MARR, MARR, I, M.sort)    # sum_{k=0}^{n} outer(x[k], y[n-k])
MINV = z3.Function('MINV', MARR, I, M.sort)                  # Taylor coefficients of inv(x(t))
MSOLVE = z3.Function('MSOLVE', MARR, MARR, I, M.sort)        # Taylor coefficients of the solution of A(t) y(t) = x(t)
delta = lambda n: z3.If(n == 0, M.Id, M.Zero)


def mconv_def(c, x, y, n): return [MCONV(x, y, n) == c.Sum(z3.IntVal(0), n, lambda k: M.dot(x[k], y[n - k]))]
def mouter_def(c, x, y, n): return [MOUTER(x, y, n) == c.Sum(z3.IntVal(0), n, lambda k: M.outer(x[k], y[n - k]))]
def minv_def(c, x, n):
    return [MINV(x, 0) == M.f_inv(x[0]),
            z3.Implies(n >= 1, MINV(x, n) == M.dot(M.neg(MINV(x, 0)), c.Sum(z3.IntVal(1), n, lambda k: M.dot(x[k], MINV(x, n - k)))))]
def msolve_def(c, a, x, n):
    return [MSOLVE(a, x, 0) == M.dot(M.f_inv(a[0]), x[0]),
            z3.Implies(n >= 1, MSOLVE(a, x, n) == M.dot(M.f_inv(a[0]), M.sub(x[n], c.Sum(z3.IntVal(1), n, lambda k: M.dot(a[k], MSOLVE(a, x, n - k))))))]
def regular(a0): return [M.dot(a0, M.f_inv(a0)) == M.Id, M.dot(M.f_inv(a0), a0) == M.Id]


import numpy
def _conv(x, y, op):
    out = []
    for d in range(len(x)):
        acc = op(x[0], y[d])
        for k in range(1, d + 1): acc = acc + op(x[k], y[d - k])
        out.append(acc)
    return out


class MatContract(Contract):
    alg = 'mat'; timeout_ms = 30000
    property_ids = ('C07', 'C12')
    N = 3
    def native_init(self, name, arr, cfg):
        if name in ('A_data',) or (name == 'x_data' and self.qual.endswith('_inv')):
            for p in range(arr.shape[1]):
                # dominant entries on the diagonal / the anti-diagonal (one row swap) / a cyclic row shift (a pivoting permutation that is
                # not its own inverse: P and P^T differ)
                E = numpy.eye(arr.shape[2]); E = (E, numpy.roll(E, 1, axis=0), E[::-1])[p % 3]
                arr[0, p] = arr[0, p] + (2.5 + 0.5 * p) * E
        if name == 'out.0' and self.qual.endswith('_inv'): arr[...] = 0.


@register
class Dot(MatContract):
    qual = A('_dot'); arrays = ('x_data', 'y_data', 'out'); modifies = ('out',); returns = 'out'
    cfgs = {'distinct': {}}
    op = staticmethod(M.dot); SPEC = MCONV; npop = staticmethod(numpy.dot)
    def cell_shapes(self, cfg): return {'x_data': (2, 3), 'y_data': (3, 2), 'out': (2, 2)} if self.npop is numpy.dot else {'x_data': (3,), 'y_data': (2,), 'out': (3, 2)}
    def oracle(self, inp, scal, cfg): return {'out': _conv(inp['x_data'], inp['y_data'], self.npop)}
    def spec_lemmas(self, c):
        # causality of the matrix Cauchy products: coefficient n depends on the coefficients <= n of both operands only
        T, DEF = self.SPEC, self.sdef_static
        a = z3.Const('a!mc', MARR); b = z3.Const('b!mc', MARR); a2 = z3.Const('a2!mc', MARR); b2 = z3.Const('b2!mc', MARR); n = z3.Int('n!caus'); i = z3.Int('i!caus')
        hyps = [n >= 0, z3.ForAll([i], z3.Implies(z3.And(0 <= i, i <= n), z3.And(a[i] == a2[i], b[i] == b2[i])))] + DEF(c, a, b, n) + DEF(c, a2, b2, n)
        return [('causality of %s: coefficient n depends on input coefficients <= n only' % T.name(), hyps, T(a, b, n) == T(a2, b2, n), ())]
    @property
    def sdef_static(self): return mconv_def if self.SPEC is MCONV else mouter_def
    def sdef(self, c, n): return mconv_def(c, c.pre['x_data'], c.pre['y_data'], n)
    def ensures(self, c):
        x, y = c.pre['x_data'], c.pre['y_data']; o = c.cur('out')
        return [('out[d] = sum_c dot(x[c], y[d-c])', c.forall(0, c.D, lambda j: o[j] == self.SPEC(x, y, j)))]
    def spec_instances(self, c, n): return self.sdef(c, n)
    def invariants(self):
        def inv0(c, d):
            x, y = c.pre['x_data'], c.pre['y_data']; o = c.cur('out')
            return [c.forall(0, d, lambda j: o[j] == self.SPEC(x, y, j)), c.forall(d, c.D, lambda j: o[j] == M.Zero)] + c.unchanged('x_data', 'y_data')
        def inv2(c, cc):
            x, y = c.pre['x_data'], c.pre['y_data']; o = c.cur('out'); d = c.scalar('d')
            return [c.forall(0, d, lambda j: o[j] == self.SPEC(x, y, j)), c.forall(d + 1, c.D, lambda j: o[j] == M.Zero),
                    o[d] == c.Sum(z3.IntVal(0), cc - 1, lambda k: self.op(x[k], y[d - k]))] + c.unchanged('x_data', 'y_data')
        return {0: inv0, 2: inv2}


@register
class Outer(Dot):
    qual = A('_outer'); op = staticmethod(M.outer); SPEC = MOUTER; npop = staticmethod(numpy.outer)
    def sdef(self, c, n): return mouter_def(c, c.pre['x_data'], c.pre['y_data'], n)
    def ensures(self, c):
        x, y = c.pre['x_data'], c.pre['y_data']; o = c.cur('out')
        return [('out[d] = sum_c outer(x[c], y[d-c])', c.forall(0, c.D, lambda j: o[j] == MOUTER(x, y, j)))]


class SliceWise(MatContract):
    """out[d,p] = op(x[d,p], const)  for every d  (constant operand on one side)"""
    def axioms(self, alg): return M.basic
    modifies = ('out',); returns = 'out'; cfgs = {'distinct': {}}
    arr = 'x_data'; const = 'y_data'; side = 'r'; op = staticmethod(M.dot); accumulate = False
    def _np(self): return numpy.dot if 'dot' in self.qual else numpy.outer
    def cell_shapes(self, cfg):
        if 'dot' in self.qual: return {self.arr: (3, 3), 'out': (3, 3)}
        return {self.arr: (3,), 'out': (3, 3)}
    def native_scalars(self, cfg, rng):
        shp = (3, 3) if 'dot' in self.qual else (3,)
        return {self.const: numpy.array([round(rng.uniform(-1, 1) * 8) / 8 for _ in range(int(numpy.prod(shp)))]).reshape(shp)}
    def oracle(self, inp, scal, cfg):
        k = scal[self.const]; f = self._np()
        return {'out': [f(v, k) if self.side == 'r' else f(k, v) for v in inp[self.arr]]}
    @property
    def arrays(self): return (self.arr, 'out')
    @property
    def scalars(self): return {self.const: 'cell'}
    def val(self, c, j):
        x = c.pre[self.arr]; k = scalar_of(c, self.const).t
        return self.op(x[j], k) if self.side == 'r' else self.op(k, x[j])
    def ensures(self, c):
        o = c.cur('out'); return [('out[d] = op(x[d], const)', c.forall(0, c.D, lambda j: o[j] == self.val(c, j)))]
    def invariants(self):
        def inv0(c, d):
            o = c.cur('out')
            return [c.forall(0, d, lambda j: o[j] == self.val(c, j)), c.forall(d, c.D, lambda j: o[j] == M.Zero)] + c.unchanged(self.arr)
        return {0: inv0}

@register
class DotNonUTPMy(SliceWise): qual = A('_dot_non_UTPM_y'); arr = 'x_data'; const = 'y_data'; side = 'r'
@register
class DotNonUTPMx(SliceWise): qual = A('_dot_non_UTPM_x'); arr = 'y_data'; const = 'x_data'; side = 'l'
@register
class OuterNonUTPMy(SliceWise): qual = A('_outer_non_utpm_y'); arr = 'x_data'; const = 'y'; side = 'r'; op = staticmethod(M.outer)
@register
class OuterNonUTPMx(SliceWise): qual = A('_outer_non_utpm_x'); arr = 'y_data'; const = 'x'; side = 'l'; op = staticmethod(M.outer)


def g_solve(a, x, ysel, d):
    """summand of the accumulation in _solve, with the right-hand side as 0-th term:  g(0) = x[d],  g(i) = -(A[i] y[d-i])"""
    return lambda i: z3.If(i == 0, x[d], M.neg(M.dot(a[i], ysel(d - i))))


@register
class Inv(MatContract):
    qual = A('_inv'); arrays = ('x_data', 'out.0'); tuples = {'out': 1}; modifies = ('out.0',); returns = 'out.0'
    cfgs = {'distinct': {}}
    def axioms(self, alg): return M.basic
    def requires(self, c):
        x = c.pre['x_data']; y0 = c.pre['out.0']
        return regular(x[0]) + [c.forall(0, c.D, lambda j: y0[j] == M.Zero)]        # UTPM.inv allocates zeros: the accumulation starts from them
    def ensures(self, c):
        x = c.pre['x_data']; y = c.cur('out.0')
        return [('y[d] = MINV(x,d)', c.forall(0, c.D, lambda j: y[j] == MINV(x, j)))]
    def spec_instances(self, c, n): return minv_def(c, c.pre['x_data'], n)
    def cell_shapes(self, cfg): return {'x_data': (3, 3), 'out.0': (3, 3)}
    def oracle(self, inp, scal, cfg):
        x = inp['x_data']; y = [numpy.linalg.inv(x[0])]
        for d in range(1, len(x)): y.append(-y[0].dot(sum(x[k].dot(y[d - k]) for k in range(1, d + 1))))
        return {'out.0': y}
    def spec_lemmas(self, c):
        # characteristic identity of the spec function (the property statement): sum_{k=0}^{n} x[k] MINV(n-k) = delta(n) I.
        # proof script: ground instances of the ring axioms (no quantified axioms reach the solver)
        x = c.pre['x_data']; n = z3.Int('n!lem'); x0 = x[0]; m0 = M.f_inv(x0)
        f = lambda k: M.dot(x[k], MINV(x, n - k))
        whole = c.Sum(z3.IntVal(0), n, f); S = c.Sum(z3.IntVal(1), n, f)
        hyps = regular(x0) + minv_def(c, x, n) + [n >= 0, z3.Implies(n >= 0, whole == M.add(f(z3.IntVal(0)), S)), z3.Implies(n == 0, S == M.Zero)]
        hyps += [M.inst('mul_assoc', x0, M.neg(m0), S), M.inst('mul_neg', x0, m0), M.inst('neg_mul', M.Id, S), M.inst('id_mul', S), M.inst('neg_add', S), M.inst('add_zero', M.dot(x0, m0)), M.inst('add_zero', M.Id)]
        return [('A(t) inv(A)(t) = I mod t^D  (for the spec function MINV)', hyps, whole == delta(n), ())]
    def invariants(self):
        def inv1(c, d):
            x = c.pre['x_data']; y = c.cur('out.0')
            return [c.forall(0, d, lambda j: y[j] == MINV(x, j)), c.forall(d, c.D, lambda j: y[j] == M.Zero)] + c.unchanged('x_data')
        def inv3(c, cc):
            x = c.pre['x_data']; y = c.cur('out.0'); d = c.scalar('d')
            return [c.forall(0, d, lambda j: y[j] == MINV(x, j)), c.forall(d + 1, c.D, lambda j: y[j] == M.Zero),
                    y[d] == c.Sum(z3.IntVal(1), cc - 1, lambda k: M.dot(x[k], y[d - k]))] + c.unchanged('x_data')
        return {1: inv1, 3: inv3}


def msolve_def2(c, a, x, n):
    # in the shape the code computes:  y[n] = inv(A0) (x[n] + sum_{k=1}^{n} -(A[k] y[n-k]))   [x[n] is the 0-th term of the accumulation]
    return [MSOLVE(a, x, 0) == M.dot(M.f_inv(a[0]), x[0]),
            z3.Implies(n >= 1, MSOLVE(a, x, n) == M.dot(M.f_inv(a[0]), c.Sum(z3.IntVal(0), n, g_solve(a, x, lambda j: MSOLVE(a, x, j), n))))]


@register
class Solve(MatContract):
    qual = A('_solve'); arrays = ('A_data', 'x_data', 'out'); modifies = ('out',); returns = 'out'
    cfgs = {'distinct': {}}
    def axioms(self, alg): return M.basic
    def requires(self, c): return regular(c.pre['A_data'][0])
    def ensures(self, c):
        a, x = c.pre['A_data'], c.pre['x_data']; y = c.cur('out')
        return [('y[d] = MSOLVE(A,x,d)', c.forall(0, c.D, lambda j: y[j] == MSOLVE(a, x, j)))]
    def spec_instances(self, c, n): return msolve_def2(c, c.pre['A_data'], c.pre['x_data'], n)
    def cell_shapes(self, cfg): return {'A_data': (3, 3), 'x_data': (3, 2), 'out': (3, 2)}
    def oracle(self, inp, scal, cfg):
        a, x = inp['A_data'], inp['x_data']; y = [numpy.linalg.solve(a[0], x[0])]
        for d in range(1, len(x)): y.append(numpy.linalg.solve(a[0], x[d] - sum(a[k].dot(y[d - k]) for k in range(1, d + 1))))
        return {'out': y}
    def spec_lemmas(self, c):
        # A(t) y(t) = x(t) for the spec function, stated with the accumulated right-hand side r = x[n] + sum_{k>=1} -(A[k] y[n-k]):
        #   A0 MSOLVE(n) = r   (the defining equation of the n-th coefficient of A y = x, moved to one side)
        a, x = c.pre['A_data'], c.pre['x_data']; n = z3.Int('n!lem'); a0 = a[0]; m0 = M.f_inv(a0)
        r = c.Sum(z3.IntVal(0), n, g_solve(a, x, lambda j: MSOLVE(a, x, j), n))
        hyps = regular(a0) + msolve_def2(c, a, x, n) + [n >= 1, M.inst('mul_assoc', a0, m0, r), M.inst('id_mul', r)]
        return [('A_0 y_n = x_n - sum_{k=1}^{n} A_k y_{n-k}  (n-th coefficient of A(t) y(t) = x(t), for the spec function MSOLVE)', hyps, M.dot(a0, MSOLVE(a, x, n)) == r, ())]
    def invariants(self):
        def inv1(c, d):
            a, x = c.pre['A_data'], c.pre['x_data']; y = c.cur('out')
            return [c.forall(0, d, lambda j: y[j] == MSOLVE(a, x, j))] + c.unchanged('A_data', 'x_data')
        def inv3(c, k):
            a, x = c.pre['A_data'], c.pre['x_data']; y = c.cur('out'); d = c.scalar('d')
            return [c.forall(0, d, lambda j: y[j] == MSOLVE(a, x, j)),
                    c.scalar('tmp') == c.Sum(z3.IntVal(0), k - 1, g_solve(a, x, lambda j: y[j], d))] + c.unchanged('A_data', 'x_data')
        return {1: inv1, 3: inv3}


@register
class SolveNonUTPMA(MatContract):
    """y[d,p] = solve(A, x[d,p]) with a constant matrix A"""
    qual = A('_solve_non_UTPM_A'); arrays = ('x_data', 'out'); scalars = {'A_data': 'cell'}; modifies = ('out',); returns = 'out'
    cfgs = {'distinct': {}}
    def val(self, c, j): return M.dot(M.f_inv(scalar_of(c, 'A_data').t), c.pre['x_data'][j])
    def cell_shapes(self, cfg): return {'x_data': (3, 2), 'out': (3, 2)}
    def native_scalars(self, cfg, rng): return {'A_data': numpy.array([round(rng.uniform(-1, 1) * 8) / 8 for _ in range(9)]).reshape(3, 3) + 2.5 * (numpy.eye(3)[::-1] if rng.random() < 0.4 else numpy.roll(numpy.eye(3), rng.choice((1, 2)), axis=0))}
    def oracle(self, inp, scal, cfg): return {'out': [numpy.linalg.solve(scal['A_data'], v) for v in inp['x_data']]}
    def ensures(self, c):
        o = c.cur('out'); return [('out[d] = solve(A, x[d])', c.forall(0, c.D, lambda j: o[j] == self.val(c, j)))]
    def invariants(self):
        def inv0(c, d):
            o = c.cur('out'); return [c.forall(0, d, lambda j: o[j] == self.val(c, j))] + c.unchanged('x_data')
        return {0: inv0}


MSOLVEC = z3.Function('MSOLVEC', MARR, M.sort, I, M.sort)
def g_solvec(a, ysel, d): return lambda i: z3.If(i == 0, M.Zero, M.neg(M.dot(a[i], ysel(d - i))))
def msolvec_def(c, a, xc, n):
    return [MSOLVEC(a, xc, 0) == M.dot(M.f_inv(a[0]), xc),
            z3.Implies(n >= 1, MSOLVEC(a, xc, n) == M.dot(M.f_inv(a[0]), c.Sum(z3.IntVal(0), n, g_solvec(a, lambda j: MSOLVEC(a, xc, j), n))))]


@register
class SolveNonUTPMx(MatContract):
    qual = A('_solve_non_UTPM_x'); arrays = ('A_data', 'out'); scalars = {'x_data': 'cell'}; modifies = ('out',); returns = 'out'
    cfgs = {'distinct': {}}
    def axioms(self, alg): return M.basic
    def requires(self, c): return regular(c.pre['A_data'][0])
    def xc(self, c): return scalar_of(c, 'x_data').t
    def cell_shapes(self, cfg): return {'A_data': (3, 3), 'out': (3, 2)}
    def native_scalars(self, cfg, rng): return {'x_data': numpy.array([round(rng.uniform(-1, 1) * 8) / 8 for _ in range(6)]).reshape(3, 2)}
    def oracle(self, inp, scal, cfg):
        a = inp['A_data']; y = [numpy.linalg.solve(a[0], scal['x_data'])]
        for d in range(1, len(a)): y.append(numpy.linalg.solve(a[0], -sum(a[k].dot(y[d - k]) for k in range(1, d + 1))))
        return {'out': y}
    def ensures(self, c):
        a = c.pre['A_data']; y = c.cur('out')
        return [('y[d] = MSOLVEC(A,x,d)', c.forall(0, c.D, lambda j: y[j] == MSOLVEC(a, self.xc(c), j)))]
    def spec_instances(self, c, n): return msolvec_def(c, c.pre['A_data'], self.xc(c), n)
    def spec_lemmas(self, c):
        a = c.pre['A_data']; n = z3.Int('n!lem'); a0 = a[0]; m0 = M.f_inv(a0); xc = self.xc(c)
        r = c.Sum(z3.IntVal(0), n, g_solvec(a, lambda j: MSOLVEC(a, xc, j), n))
        hyps = regular(a0) + msolvec_def(c, a, xc, n) + [n >= 1, M.inst('mul_assoc', a0, m0, r), M.inst('id_mul', r)]
        return [('A_0 y_n = - sum_{k=1}^{n} A_k y_{n-k}  (n >= 1, constant right-hand side)', hyps, M.dot(a0, MSOLVEC(a, xc, n)) == r, ())]
    def invariants(self):
        def inv1(c, d):
            a = c.pre['A_data']; y = c.cur('out')
            return [c.forall(0, d, lambda j: y[j] == MSOLVEC(a, self.xc(c), j))] + c.unchanged('A_data')
        def inv3(c, k):
            a = c.pre['A_data']; y = c.cur('out'); d = c.scalar('d')
            return [c.forall(0, d, lambda j: y[j] == MSOLVEC(a, self.xc(c), j)),
                    c.scalar('tmp') == c.Sum(z3.IntVal(0), k - 1, g_solvec(a, lambda j: y[j], d))] + c.unchanged('A_data')
        return {1: inv1, 3: inv3}


# ---------------------------------------------------------------------------------------------- transposition and the pullback of inv
@register
class Transpose(MatContract):
    """_transpose(a): every matrix cell transposed (a pure function of the coefficients; the result is a view in NumPy, nothing is written)"""
    qual = A('_transpose'); arrays = ('a_data',); scalars = {'axes': 'none'}; modifies = (); returns = 'elementwise'
    cfgs = {'distinct': {'axes': None}}
    property_ids = ('C07', 'C13')
    def ret_elem(self, c, i): return M.f_T(c.pre['a_data'][i])
    def ensures(self, c): return []


def lam(f):
    i = z3.FreshInt('i!lam'); return z3.Lambda([i], f(i))

@register
class InvPullback(MatContract):
    """y = inv(x):  xbar' = xbar - y^T (*) (ybar (*) y^T)   (matrix Cauchy products; the adjoint of the matrix inverse, coefficient level)"""
    qual = A('_inv_pullback'); arrays = ('ybar_data', 'x_data', 'y_data', 'out'); modifies = ('out',); returns = 'out'
    cfgs = {'distinct': {}}
    property_ids = ('C03', 'C06', 'C07', 'C14')
    dataflow = True; cex_D = (); timeout_ms = 8000
    def axioms(self, alg): return M.basic
    def ensures(self, c):
        p = c.pre; o0 = p['out']; o = c.cur('out'); yT = lam(lambda i: M.f_T(p['y_data'][i]))
        t1 = lam(lambda i: MCONV(p['ybar_data'], yT, i))
        return [("xbar' = xbar - y^T (*) (ybar (*) y^T)", c.forall(0, c.D, lambda j: o[j] == M.sub(o0[j], MCONV(yT, t1, j))))]
    def cell_shapes(self, cfg): return {'ybar_data': (3, 3), 'x_data': (3, 3), 'y_data': (3, 3), 'out': (3, 3)}
    def oracle(self, inp, scal, cfg):
        yT = [m.T for m in inp['y_data']]; t1 = _conv(inp['ybar_data'], yT, numpy.dot); t2 = _conv(yT, t1, numpy.dot)
        return {'out': [a - b for a, b in zip(inp['out'], t2)]}


from . import spec as _S
_S.CAUSAL['MCONV'] = (MCONV, lambda *a: [])
_S.CAUSAL['MOUTERCONV'] = (MOUTER, lambda *a: [])
