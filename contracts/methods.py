"""Contracts for the UTPM method wrappers of the elementary functions (algopy/utpm/utpm.py): the result is a NEW object whose
data satisfy the kernel's postcondition (through the kernel's contract, never its body); the argument's data are not written."""
import z3
from vc.contract import Contract, scalar_of
from . import spec as S
from .kernels import Expm1, sgn
from bounded import specinterp as SI
REG = {}
def register(cls):
    inst = cls(); REG['UTPM.' + inst.qual.split('.')[-1]] = inst; return cls


class Wrapper(Contract):
    file = 'algopy/utpm/utpm.py'
    obj = 'self'; T = None; dom = staticmethod(lambda x: [])
    cfgs = {'distinct': {}}; modifies = (); returns = 'any'
    property_ids = ('C01', 'C14', 'C12')
    @property
    def objs(self): return (self.obj,)
    @property
    def arrays(self): return (self.obj + '.data',)
    def x(self, c): return c.pre[self.obj + '.data']
    def requires(self, c): return self.dom(self.x(c))
    def value(self, c, j): return self.T(self.x(c), j)
    def fvalue(self, c, j): return self.value(c, j)
    def ensures(self, c):
        x = self.x(c); r = c.retdata()
        fresh = c.ret.attrs['data'].base != c._names[self.obj + '.data']
        return [('result.data[d] = spec(x, d)', c.forall(0, c.D, lambda j: r[j] == self.value(c, j))), ('result is a new object (no aliasing with the argument)', z3.BoolVal(bool(fresh)))]
    def native_call(self, U, u): return getattr(u, self.qual.split('.')[-1])() if self.obj == 'self' else getattr(U, self.qual.split('.')[-1])(u)
    SIF = None; which = None
    def oracle_cells(self, col):
        r = getattr(SI, self.SIF)(col)
        return r[self.which] if self.which is not None else r

def W(name, T, SIF, dom=lambda x: [], obj='self', which=None, props=('C01', 'C14')):
    cls = type('W_' + name, (Wrapper,), {'qual': 'UTPM.' + name, 'T': staticmethod(T), 'SIF': SIF, 'dom': staticmethod(dom), 'obj': obj, 'which': which, 'property_ids': props})
    return register(cls)

np = S.np
W('sqrt', S.SQRT, 'sqrt', lambda x: [np('sqrt')(x[0]) != 0]); W('exp', S.EXP, 'exp'); W('log', S.LOG, 'log', lambda x: [x[0] != 0])
W('sin', S.SIN, 'sincos', which=0); W('cos', S.COS, 'sincos', which=1); W('tan', S.TAN, 'tansec2', lambda x: [np('cos')(x[0]) != 0], which=0)
W('arcsin', S.ASIN, 'arcsin', lambda x: [np('cos')(np('arcsin')(x[0])) != 0], which=0); W('arccos', S.ACOS, 'arccos', lambda x: [np('sin')(np('arccos')(x[0])) != 0], which=0)
W('arctan', S.ATAN, 'arctan', which=0); W('sinh', S.SINH, 'sinhcosh', which=0); W('cosh', S.COSH, 'sinhcosh', which=1); W('tanh', S.TANH, 'tanhsech2', which=0)
W('reciprocal', S.RECIP, 'recip', lambda x: [x[0] != 0], obj='x', props=('C01', 'C02', 'C14'))
W('square', lambda x, j: S.CONV(x, x, j), None, obj='x', props=('C01', 'C02', 'C14')); W('negative', lambda x, j: -x[j], None, obj='x')
W('absolute', lambda x, j: sgn(x[0]) * x[j], None, lambda x: [x[0] != 0], obj='x'); W('expm1', Expm1.EXPM1, None)


# ------------------------------------------------------------------------------------------------ operators
toR = S.toR
class OpUU(Contract):
    """self (op) rhs with both operands Taylor polynomials.  cfg `same`: both operands are the same object (x op x)."""
    file = 'algopy/utpm/utpm.py'; objs = ('self', 'rhs'); arrays = ('self.data', 'rhs.data'); modifies = (); returns = 'any'
    cfgs = {'distinct': {}, 'same': {'alias': {'rhs.data': 'self.data'}}}
    property_ids = ('C02', 'C14', 'C12')
    skolem_instances = False
    def requires(self, c): return []
    def value(self, c, j): raise NotImplementedError
    def fvalue(self, c, j): return self.value(c, j)
    def ensures(self, c):
        r = c.retdata(); fresh = c.ret.attrs['data'].base not in (c._names['self.data'], c._names['rhs.data'])
        return [('result.data[d] = ring operation of R[t]/(t^D)', c.forall(0, c.D, lambda j: r[j] == self.value(c, j))), ('result is a new object', z3.BoolVal(bool(fresh)))]
def UU(name, val, req=lambda c: []):
    cls = type('UU_' + name, (OpUU,), {'qual': 'UTPM.' + name, 'value': lambda self, c, j: val(c.pre['self.data'], c.pre['rhs.data'], j), 'requires': lambda self, c: req(c)})
    inst = cls(); REG['UTPM.%s[UTPM]' % name] = inst; return cls
UU('__add__', lambda x, y, j: x[j] + y[j]); UU('__sub__', lambda x, y, j: x[j] - y[j])
UU('__mul__', lambda x, y, j: S.CONV(x, y, j)); UU('__truediv__', lambda x, y, j: S.QUOT(x, y, j), lambda c: [c.pre['rhs.data'][0] != 0])


class OpUC(Contract):
    """self (op) constant: the constant acts as a polynomial of degree zero.  cfgs: python/numpy float, int, plain ndarray."""
    file = 'algopy/utpm/utpm.py'; objs = ('self',); arrays = ('self.data',); scalars = {'rhs': 'real'}; modifies = (); returns = 'any'
    cfgs = {'float': {'rhs': 'real'}, 'int': {'rhs': 'int'}, 'ndarray': {'rhs': 'ndarray'}}
    property_ids = ('C02', 'C14', 'C12')
    cname = 'rhs'
    def cval(self, c):
        v = scalar_of(c, self.cname); return toR(v.t)
    def fvalue(self, c, j): return self.value(c.pre['self.data'], self.cval(c), j)
    def ensures(self, c):
        r = c.retdata(); x = c.pre['self.data']; k = self.cval(c); fresh = c.ret.attrs['data'].base != c._names['self.data']
        return [('result.data[d] = x (op) constant-as-degree-0-polynomial', c.forall(0, c.D, lambda j: r[j] == self.value(x, k, j))), ('result is a new object', z3.BoolVal(bool(fresh)))]
def UC(name, val, req=lambda k: []):
    cls = type('UC_' + name, (OpUC,), {'qual': 'UTPM.' + name, 'value': staticmethod(val), 'requires': lambda self, c: req(self.cval(c))})
    inst = cls(); REG['UTPM.%s[const]' % name] = inst; return cls
UC('__add__', lambda x, k, j: z3.If(j == 0, x[j] + k, x[j])); UC('__sub__', lambda x, k, j: z3.If(j == 0, x[j] - k, x[j]))
UC('__mul__', lambda x, k, j: x[j] * k); UC('__truediv__', lambda x, k, j: x[j] / k, lambda k: [k != 0])


class IOpUU(Contract):
    """self (op)= rhs: same coefficients as the binary operator, written into self.data; returns self.
    cfg `same`: x op= x."""
    file = 'algopy/utpm/utpm.py'; objs = ('self', 'rhs'); arrays = ('self.data', 'rhs.data'); modifies = ('self.data',); returns = 'any'
    cfgs = {'distinct': {}, 'same': {'alias': {'rhs.data': 'self.data'}}}
    property_ids = ('C02', 'C14', 'C12')
    def ensures(self, c):
        x = c.pre['self.data']; y = c.pre['rhs.data']; now = c.cur('self.data')
        same = isinstance(c.ret, type(c.st.env['self'])) and c.ret is c.st.env['self']
        return [('self.data[d] = same right-hand side as the binary operator', c.forall(0, c.D, lambda j: now[j] == self.value(x, y, j))), ('returns self', z3.BoolVal(bool(same)))]
    def _frame_params(self, cfg): return [] if cfg == 'same' else ['rhs.data']
def IUU(name, val, req=lambda c: [], invs=None, defs=None):
    d = {'qual': 'UTPM.' + name, 'value': staticmethod(val), 'requires': lambda self, c: req(c)}
    if invs: d['invariants'] = lambda self: invs(self)
    if defs: d['spec_instances'] = lambda self, c, n: defs(c, n)
    cls = type('IUU_' + name, (IOpUU,), d); REG['UTPM.%s[UTPM]' % name] = cls(); return cls
IUU('__iadd__', lambda x, y, j: x[j] + y[j]); IUU('__isub__', lambda x, y, j: x[j] - y[j])
def _imul_invs(self):
    def inv_d(c, d):        # descending d: orders > d final, orders <= d still entry values
        x, y = c.pre['self.data'], c.pre['rhs.data']; now = c.cur('self.data')
        return [c.forall(d + 1, c.D, lambda j: now[j] == S.CONV(x, y, j)), c.forall(0, d + 1, lambda j: now[j] == x[j])] + _rhs_ok(c)
    def inv_c(c, cc):
        x, y = c.pre['self.data'], c.pre['rhs.data']; now = c.cur('self.data'); d = c.scalar('d')
        return [c.forall(d + 1, c.D, lambda j: now[j] == S.CONV(x, y, j)), c.forall(0, d, lambda j: now[j] == x[j]),
                now[d] == x[d] * y[0] + c.Sum(z3.IntVal(0), cc - 1, lambda k: x[k] * y[d - k])] + _rhs_ok(c)
    return {0: inv_d, 2: inv_c}
def _rhs_ok(c):
    # the array the loop reads as right operand (rhs_data: rhs.data itself or its private copy) still holds the entry values of rhs.data
    v = c.st.env.get('rhs_data'); y = c.pre['rhs.data']
    from vc.engine import View
    if not isinstance(v, View): return []
    arr = c.st.heap[v.base][0]
    return [c.forall(0, c.D, lambda j: arr[j] == y[j])]
IUU('__imul__', lambda x, y, j: S.CONV(x, y, j), invs=_imul_invs, defs=lambda c, n: S.conv_def(c, c.pre['self.data'], c.pre['rhs.data'], n))
def _work_copy(c):
    """contents of the array the loop fills (whatever its name): the array expression of the loop body's subscripted store"""
    import ast
    from vc.engine import View, Undecided
    tg = [t for n in ast.walk(c.loop) if isinstance(n, ast.Assign) for t in n.targets if isinstance(t, ast.Subscript)] if c.loop is not None else []
    bases = set()
    for t in tg:
        v = c.ex.ev(t.value)
        if isinstance(v, View): bases.add(v.base)
    if len(bases) != 1: raise Undecided('cannot identify the array the loop of __itruediv__ fills (%d candidates)' % len(bases))
    return c.st.heap[bases.pop()][0]
def _idiv_invs(self):
    def inv0(c, d):
        x, y = c.pre['self.data'], c.pre['rhs.data']; arr = _work_copy(c)
        return [c.forall(0, d, lambda j: arr[j] == S.QUOT(x, y, j))] + c.unchanged('self.data', 'rhs.data')
    return {0: inv0}
IUU('__itruediv__', lambda x, y, j: S.QUOT(x, y, j), req=lambda c: [c.pre['rhs.data'][0] != 0], invs=_idiv_invs, defs=lambda c, n: S.quot_def(c, c.pre['self.data'], c.pre['rhs.data'], n))


class Pow(Contract):
    file = 'algopy/utpm/utpm.py'; qual = 'UTPM.__pow__'; objs = ('self',); arrays = ('self.data',); scalars = {'r': 'real'}; modifies = (); returns = 'any'
    cfgs = {'real': {'r': 'real'}, 'int0': {'r': 0}, 'int1': {'r': 1}, 'int2': {'r': 2}, 'int_ge3': {'r': 'int'}, 'int_neg': {'r': 'int'}}
    property_ids = ('C01', 'C02', 'C14', 'C12')
    def cfg_assumptions(self, c, cfg):
        r = scalar_of(c, 'r')
        return [r.t >= 3] if cfg == 'int_ge3' else ([r.t < 0] if cfg == 'int_neg' else [])
    def requires(self, c):
        from vc.engine import IntV
        r = scalar_of(c, 'r')
        return [] if (isinstance(r, IntV) and c.ex.entails(r.t >= 0) is True) else [c.pre['self.data'][0] != 0]
    def ensures(self, c):
        from vc.engine import IntV
        x = c.pre['self.data']; res = c.retdata(); r = scalar_of(c, 'r')
        nat = isinstance(r, IntV) and c.ex.entails(r.t >= 0) is True
        val = (lambda j: S.POWN(x, r.t, j)) if nat else (lambda j: S.POWR(x, toR(r.t), j))
        return [('result.data = x ** r', c.forall(0, c.D, lambda j: res[j] == val(j))), ('result is a new object', z3.BoolVal(c.ret.attrs['data'].base != c._names['self.data']))]
REG['UTPM.__pow__'] = Pow()


# ------------------------------------------------------------------------------------------------ pullback wrappers (what the tracer calls)
class _Adapt:
    """presents the wrapper's arrays under the parameter names of the kernel-level pullback contract"""
    def __init__(s, c, m): s.pre = {k: c.pre[v] for k, v in m.items()}; s.c = c
    def __getattr__(s, nm): return getattr(s.c, nm)

class PbW(Contract):
    """UTPM.pb_f(ybar, x, y, out=(xbar,)): the adjoint held by the object in `out` is updated by the kernel-level formula
    xbar' = xbar + ybar (*) f'(x); the seed and the forward values are not written; proved through the kernel pullback's contract"""
    file = 'algopy/utpm/utpm.py'; objs = ('ybar', 'x', 'y'); objtuples = {'out': 1}
    arrays = ('ybar.data', 'x.data', 'y.data', 'out.0.data'); modifies = ('out.0.data',); returns = 'any'
    cfgs = {'distinct': {}}; dataflow = True; timeout_ms = 6000; cex_D = ()
    property_ids = ('C03', 'C06', 'C14')
    kernel = None
    amap = {'ybar_data': 'ybar.data', 'x_data': 'x.data', 'y_data': 'y.data', 'out': 'out.0.data'}
    def requires(self, c): return list(self.kernel.requires(_Adapt(c, self.amap)))
    def ensures(self, c):
        k = self.kernel; ad = _Adapt(c, self.amap); o0 = c.pre['out.0.data']; o = c.cur('out.0.data')
        inc = (lambda j: k.incr(ad, j)) if hasattr(k, 'incr') else (lambda j: k.G(ad, j))
        return [("out[0].data' = out[0].data + ybar (*) f'(x)   (formula of %s)" % k.qual.split('.')[-1], c.forall(0, c.D, lambda j: o[j] == o0[j] + inc(j)))]
    def spec_instances(self, c, n): return list(self.kernel.spec_instances(_Adapt(c, self.amap), n)) if hasattr(self.kernel, 'defs') else []
    def _k(self, d): return {k: d[v] for k, v in self.amap.items() if v in d}
    def sample_x0(self, name, rng): return self.kernel.sample_x0({v: k for k, v in self.amap.items()}.get(name, name), rng)
    def native_scalars(self, cfg, rng): return {}
    def oracle(self, inp, scal, cfg): return {'out.0.data': self.kernel.oracle(self._k(inp), scal, 'distinct')['out']}

def _pbw(name, kernel_key):
    from . import pullbacks as PBK
    cls = type('PbW_' + name, (PbW,), {'qual': 'UTPM.pb_' + name, 'kernel': PBK.REG[kernel_key]})
    return register(cls)
for _n in ('exp', 'log', 'sqrt', 'square', 'negative', 'expm1', 'log1p', 'reciprocal', 'erf', 'erfi', 'logit', 'expit'):
    _pbw(_n, '_pb_' + _n)


@register
class PbInvW(Contract):
    """UTPM.pb_inv(ybar, x, y, out=(xbar,)): xbar.data updated by the formula of _inv_pullback (matrix cells), nothing else written"""
    file = 'algopy/utpm/utpm.py'; qual = 'UTPM.pb_inv'; alg = 'mat'
    objs = ('ybar', 'x', 'y'); objtuples = {'out': 1}
    arrays = ('ybar.data', 'x.data', 'y.data', 'out.0.data'); modifies = ('out.0.data',); returns = 'any'
    cfgs = {'distinct': {}}; dataflow = True; timeout_ms = 8000; cex_D = ()
    property_ids = ('C03', 'C06', 'C07', 'C14')
    def axioms(self, alg):
        from .linalg import M
        return M.basic
    def ensures(self, c):
        from .linalg import REG as LREG
        k = LREG['_inv_pullback']; ad = _Adapt(c, PbW.amap)
        lab, f = k.ensures(_AdaptCur(c, PbW.amap))[0]
        return [("out[0].data updated by the formula of _inv_pullback: " + lab, f)]
    def cell_shapes(self, cfg): return {'ybar.data': (3, 3), 'x.data': (3, 3), 'y.data': (3, 3), 'out.0.data': (3, 3)}
    def oracle(self, inp, scal, cfg):
        from .linalg import REG as LREG
        return {'out.0.data': LREG['_inv_pullback'].oracle({k: inp[v] for k, v in PbW.amap.items()}, scal, 'distinct')['out']}

class _AdaptCur(_Adapt):
    def cur(s, name): return s.c.cur(PbW.amap.get(name, name))


class PbTrigW(Contract):
    file = 'algopy/utpm/utpm.py'; objtuples = {'out': 1}; modifies = ('out.0.data',); returns = 'any'
    cfgs = {'distinct': {}}; dataflow = True; timeout_ms = 8000; cex_D = ()
    property_ids = ('C03', 'C06', 'C14')
    bar = None; val = None; other = None; sign = 1
    skolem_instances = True
    def spec_instances(self, c, n):
        # the partner seed is a fresh zero polynomial: its Cauchy product with the partner value vanishes (definition + zero-sum lemma)
        Z = z3.K(z3.IntSort(), z3.RealVal(0)); v = c.pre[self.val + '.data']
        return (S.conv_def(c, Z, v, n) if self.sign > 0 else S.conv_def(c, Z, v, n))
    @property
    def objs(self): return (self.bar, 'x', self.val)
    @property
    def arrays(self): return (self.bar + '.data', 'x.data', self.val + '.data', 'out.0.data')
    def requires(self, c): return []
    def ensures(self, c):
        from .pullbacks import lam
        x = c.pre['x.data']; b = c.pre[self.bar + '.data']; o0 = c.pre['out.0.data']; o = c.cur('out.0.data')
        g = lam(lambda i: self.other(x, i))
        return [("out[0].data' = out[0].data %s %s (*) %s(x)" % ('+' if self.sign > 0 else '-', self.bar, self.other.name()),
                 c.forall(0, c.D, lambda j: o[j] == o0[j] + self.sign * S.CONV(b, g, j)))]
    def sample_x0(self, name, rng): return round(rng.uniform(0.2, 0.9) * 16) / 16
    def native_scalars(self, cfg, rng): return {}
    def oracle(self, inp, scal, cfg):
        s_, c_ = SI.sincos(inp['x.data']); g = c_ if self.sign > 0 else s_
        return {'out.0.data': SI.add(inp['out.0.data'], SI.scale(SI.conv(inp[self.bar + '.data'], g), self.sign))}

@register
class PbSinW(PbTrigW): qual = 'UTPM.pb_sin'; bar = 'sbar'; val = 's'; other = S.COS; sign = 1
@register
class PbCosW(PbTrigW): qual = 'UTPM.pb_cos'; bar = 'cbar'; val = 'c'; other = S.SIN; sign = -1


# ------------------------------------------------------------------------------------------------ reflected operators, negation
class OpRC(OpUC):
    """constant (op) self: Python calls self.__rop__(constant).  Same three kinds of constant as OpUC."""
    pass
def RC(name, val, req=lambda c_, x: []):
    cls = type('RC_' + name, (OpRC,), {'qual': 'UTPM.' + name, 'value': staticmethod(val), 'requires': lambda self, c: req(self.cval(c), c.pre['self.data'])})
    inst = cls(); REG['UTPM.%s[const]' % name] = inst; return cls
RC('__radd__', lambda x, k, j: z3.If(j == 0, x[j] + k, x[j]))
_rs = RC('__rsub__', lambda x, k, j: z3.If(j == 0, k - x[j], -x[j]))
_rs.cname = 'other'; _rs.scalars = {'other': 'real'}; _rs.cfgs = {'float': {'other': 'real'}, 'int': {'other': 'int'}, 'ndarray': {'other': 'ndarray'}}
RC('__rmul__', lambda x, k, j: x[j] * k)

@register
class Neg(Contract):
    """-x (UTPM.__neg__ -> UTPM.neg -> -1*x -> __rmul__ -> __mul__): every coefficient negated, a new object"""
    file = 'algopy/utpm/utpm.py'; qual = 'UTPM.__neg__'; objs = ('self',); arrays = ('self.data',); modifies = (); returns = 'any'
    cfgs = {'distinct': {}}; property_ids = ('C02', 'C14', 'C12')
    def fvalue(self, c, j): return -c.pre['self.data'][j]
    def ensures(self, c):
        r = c.retdata(); fresh = c.ret.attrs['data'].base != c._names['self.data']
        return [('result.data[d] = -x[d]', c.forall(0, c.D, lambda j: r[j] == self.fvalue(c, j))), ('result is a new object', z3.BoolVal(bool(fresh)))]

@register
class NegCls(Neg):
    qual = 'UTPM.neg'; objs = ('x',); arrays = ('x.data',); scalars = {'out': 'none'}; cfgs = {'distinct': {'out': None}}
    def fvalue(self, c, j): return -c.pre['x.data'][j]
    def ensures(self, c):
        r = c.retdata(); fresh = c.ret.attrs['data'].base != c._names['x.data']
        return [('result.data[d] = -x[d]', c.forall(0, c.D, lambda j: r[j] == self.fvalue(c, j))), ('result is a new object', z3.BoolVal(bool(fresh)))]


# ------------------------------------------------------------------------------------------------ coefficient shift (C17)
@register
class Shift(Contract):
    """x.shift(s): coefficients moved by s positions, zeros shifted in, a new object (out=None); shift(s) then shift(-s) is the identity on
    the retained coefficients (lemma over the postcondition)"""
    file = 'algopy/utpm/utpm.py'; qual = 'UTPM.shift'; objs = ('self',); arrays = ('self.data',); scalars = {'s': 'int', 'out': 'none'}; modifies = (); returns = 'any'
    cfgs = {'zero': {'s': 0, 'out': None}, 'negative': {'s': 'int', 'out': None}, 'positive': {'s': 'int', 'out': None}}
    property_ids = ('C17', 'C14')
    def cfg_assumptions(self, c, cfg):
        s = scalar_of(c, 's')
        return [s.t < 0] if cfg == 'negative' else ([s.t > 0] if cfg == 'positive' else [])
    def val(self, c, j):
        x = c.pre['self.data']; s = scalar_of(c, 's').t
        return z3.If(z3.And(0 <= j - s, j - s < c.D), x[j - s], z3.RealVal(0))
    def ensures(self, c):
        r = c.retdata(); fresh = c.ret.attrs['data'].base != c._names['self.data']
        return [('result.data[j] = x[j - s] where that index exists, 0 elsewhere', c.forall(0, c.D, lambda j: r[j] == self.val(c, j))), ('result is a new object', z3.BoolVal(bool(fresh)))]
    def spec_lemmas(self, c):
        # round trip on the retained part, from the postcondition alone: y = shift(x, s), z = shift(y, -s)  =>  z[j] = x[j] whenever j + s is a valid index
        x = z3.Const('x!sh', S.ARR); y = z3.Const('y!sh', S.ARR); z = z3.Const('z!sh', S.ARR); s = z3.Int('s!sh'); j = z3.Int('j!sh'); q = z3.Int('q!sh'); D = c.D
        sh = lambda src, dst, k: z3.ForAll([q], z3.Implies(z3.And(0 <= q, q < D), dst[q] == z3.If(z3.And(0 <= q - k, q - k < D), src[q - k], z3.RealVal(0))))
        hyps = [sh(x, y, s), sh(y, z, -s), 0 <= j, j < D, 0 <= j + s, j + s < D]
        return [('shift(s) then shift(-s) restores every coefficient j with 0 <= j + s < D', hyps, z[j] == x[j], ())]


@register
class Abs(Contract):
    """abs(x): every coefficient multiplied by the sign of the zeroth one (|x| away from the kink x0 = 0), a new object"""
    file = 'algopy/utpm/utpm.py'; qual = 'UTPM.__abs__'; objs = ('self',); arrays = ('self.data',); modifies = (); returns = 'any'
    cfgs = {'distinct': {}}; property_ids = ('C01', 'C14', 'C12')
    def fvalue(self, c, j): x = c.pre['self.data']; return z3.If(x[0] < 0, -x[j], x[j])
    def ensures(self, c):
        r = c.retdata(); fresh = c.ret.attrs['data'].base != c._names['self.data']
        return [('result.data[d] = sign(x[0]) x[d]', c.forall(0, c.D, lambda j: r[j] == self.fvalue(c, j))), ('result is a new object', z3.BoolVal(bool(fresh)))]


# ------------------------------------------------------------------------------------------------ composite elementary functions as methods
def _WC(name, obj):
    from . import composites_sym as CS
    k = CS.REG['_' + name + '@allD']
    def T(x, j, k=k):
        from vc.engine import DER
        return S.BFWF(x, k.fprime(x), DER(k.tag)(z3.IntVal(0), x[0]), j)
    cls = type('WC_' + name, (Wrapper,), {'qual': 'UTPM.' + name, 'T': staticmethod(T), 'SIF': None, 'dom': staticmethod(lambda x, k=k: k.dom(x)), 'obj': obj, 'which': None,
                                          'property_ids': ('C01', 'C14', 'C12')})
    return register(cls)
_WC('erf', 'x'); _WC('erfi', 'x'); _WC('logit', 'x'); _WC('expit', 'x'); _WC('log1p', 'self')


@register
class RPow(Contract):
    """r ** x for a positive constant r:  exp(log(r) x)  (UTPM.__rpow__), a new object"""
    file = 'algopy/utpm/utpm.py'; qual = 'UTPM.__rpow__'; objs = ('self',); arrays = ('self.data',); scalars = {'r': 'real'}; modifies = (); returns = 'any'
    cfgs = {'float': {'r': 'real'}}; property_ids = ('C01', 'C02', 'C14', 'C12'); dataflow = True; timeout_ms = 8000; cex_D = ()
    def requires(self, c): return [scalar_of(c, 'r').t > 0]
    def ensures(self, c):
        x = c.pre['self.data']; r = scalar_of(c, 'r').t; r_ = c.retdata(); i = z3.FreshInt('i!lam')
        lx = z3.Lambda([i], S.np('log')(r) * x[i])
        fresh = c.ret.attrs['data'].base != c._names['self.data']
        return [('result.data[d] = EXP(log(r) x, d)', c.forall(0, c.D, lambda j: r_[j] == S.EXP(lx, j))), ('result is a new object', z3.BoolVal(bool(fresh)))]


# ------------------------------------------------------------------------------------------------ classmethod forms of the ring operations
def _CLS2(name, val, req=lambda c: []):
    """UTPM.add(x, y) / sub / mul / div / multiply: `return x op y` -- through the operator's contract"""
    cls = type('CLS_' + name, (OpUU,), {'qual': 'UTPM.' + name, 'objs': ('x', 'y'), 'arrays': ('x.data', 'y.data'), 'scalars': {'out': 'none'},
                                        'cfgs': {'distinct': {'out': None}, 'same': {'out': None, 'alias': {'y.data': 'x.data'}}},
                                        'value': lambda self, c, j: val(c.pre['x.data'], c.pre['y.data'], j), 'requires': lambda self, c: req(c),
                                        'ensures': lambda self, c: [('result.data[d] = ring operation of R[t]/(t^D)', c.forall(0, c.D, lambda j: c.retdata()[j] == self.value(c, j))),
                                                                    ('result is a new object', z3.BoolVal(bool(c.ret.attrs['data'].base not in (c._names['x.data'], c._names['y.data']))))]})
    return register(cls)
_CLS2('add', lambda x, y, j: x[j] + y[j]); _CLS2('sub', lambda x, y, j: x[j] - y[j]); _CLS2('mul', lambda x, y, j: S.CONV(x, y, j)); _CLS2('multiply', lambda x, y, j: S.CONV(x, y, j))
_CLS2('div', lambda x, y, j: S.QUOT(x, y, j), lambda c: [c.pre['y.data'][0] != 0])


# ------------------------------------------------------------------------------------------------ piecewise functions as methods
W('sign', lambda x, j: z3.If(j == 0, sgn(x[0]), z3.RealVal(0)), None, lambda x: [x[0] != 0])

@register
class BotchedClipW(Contract):
    """UTPM.botched_clip(a_min, a_max, x): the kernel's precondition `out holds a copy of x` is established here by x.clone()"""
    file = 'algopy/utpm/utpm.py'; qual = 'UTPM.botched_clip'; objs = ('x',); arrays = ('x.data',); scalars = {'a_min': 'real', 'a_max': 'real'}; modifies = (); returns = 'any'
    cfgs = {'distinct': {}}; property_ids = ('C01', 'C14', 'C12')
    def requires(self, c):
        x = c.pre['x.data']; lo, hi = toR(scalar_of(c, 'a_min').t), toR(scalar_of(c, 'a_max').t)
        return [x[0] != lo, x[0] != hi, lo <= hi]
    def fvalue(self, c, j):
        x = c.pre['x.data']; lo, hi = toR(scalar_of(c, 'a_min').t), toR(scalar_of(c, 'a_max').t)
        return z3.If(j == 0, z3.If(x[0] < lo, lo, z3.If(x[0] > hi, hi, x[0])), z3.If(z3.And(lo < x[0], x[0] < hi), x[j], z3.RealVal(0)))
    def ensures(self, c):
        r = c.retdata(); fresh = c.ret.attrs['data'].base != c._names['x.data']
        return [('result = clip branch applied coefficient-wise', c.forall(0, c.D, lambda j: r[j] == self.fvalue(c, j))), ('result is a new object', z3.BoolVal(bool(fresh)))]

class MinMaxW(Contract):
    file = 'algopy/utpm/utpm.py'; objs = ('x', 'y'); arrays = ('x.data', 'y.data'); modifies = (); returns = 'any'
    cfgs = {'distinct': {}}; property_ids = ('C01', 'C14', 'C12'); less = True
    def requires(self, c): return [c.pre['x.data'][0] != c.pre['y.data'][0]]
    def fvalue(self, c, j):
        x, y = c.pre['x.data'], c.pre['y.data']; cond = (x[0] <= y[0]) if self.less else (x[0] >= y[0])
        return z3.If(cond, x[j], y[j])
    def ensures(self, c):
        r = c.retdata(); fresh = c.ret.attrs['data'].base not in (c._names['x.data'], c._names['y.data'])
        return [('result[d] = the operand selected by the zeroth coefficients', c.forall(0, c.D, lambda j: r[j] == self.fvalue(c, j))), ('result is a new object', z3.BoolVal(bool(fresh)))]
@register
class MinimumW(MinMaxW): qual = 'UTPM.minimum'; less = True
@register
class MaximumW(MinMaxW): qual = 'UTPM.maximum'; less = False
