"""Contracts for the UTPM method wrappers of the elementary functions (algopy/utpm/utpm.py): the result is a NEW object whose
data satisfy the kernel's postcondition (through the kernel's contract, never its body); the argument's data are not written."""
import z3
from vc.contract import Contract, scalar_of
from . import spec as S
from .kernels import Expm1, sgn
from bounded import specinterp as SI
REG = {}
def register(cls):
    inst = cls(); REG['UTPM.' + inst.qual.split('.')[-1]] = inst; return cls


class Wrapper(Contract):
    file = 'algopy/utpm/utpm.py'
    obj = 'self'; T = None; dom = staticmethod(lambda x: [])
    cfgs = {'distinct': {}}; modifies = (); returns = 'any'
    property_ids = ('C01', 'C14')
    @property
    def objs(self): return (self.obj,)
    @property
    def arrays(self): return (self.obj + '.data',)
    def x(self, c): return c.pre[self.obj + '.data']
    def requires(self, c): return self.dom(self.x(c))
    def value(self, c, j): return self.T(self.x(c), j)
    def ensures(self, c):
        x = self.x(c); r = c.retdata()
        fresh = c.ret.attrs['data'].base != c._names[self.obj + '.data']
        return [('result.data[d] = spec(x, d)', c.forall(0, c.D, lambda j: r[j] == self.value(c, j))), ('result is a new object (no aliasing with the argument)', z3.BoolVal(bool(fresh)))]
    def native_call(self, U, u): return getattr(u, self.qual.split('.')[-1])() if self.obj == 'self' else getattr(U, self.qual.split('.')[-1])(u)
    SIF = None; which = None
    def oracle_cells(self, col):
        r = getattr(SI, self.SIF)(col)
        return r[self.which] if self.which is not None else r

def W(name, T, SIF, dom=lambda x: [], obj='self', which=None, props=('C01', 'C14')):
    cls = type('W_' + name, (Wrapper,), {'qual': 'UTPM.' + name, 'T': staticmethod(T), 'SIF': SIF, 'dom': staticmethod(dom), 'obj': obj, 'which': which, 'property_ids': props})
    return register(cls)

np = S.np
W('sqrt', S.SQRT, 'sqrt', lambda x: [np('sqrt')(x[0]) != 0]); W('exp', S.EXP, 'exp'); W('log', S.LOG, 'log', lambda x: [x[0] != 0])
W('sin', S.SIN, 'sincos', which=0); W('cos', S.COS, 'sincos', which=1); W('tan', S.TAN, 'tansec2', lambda x: [np('cos')(x[0]) != 0], which=0)
W('arcsin', S.ASIN, 'arcsin', lambda x: [np('cos')(np('arcsin')(x[0])) != 0], which=0); W('arccos', S.ACOS, 'arccos', lambda x: [np('sin')(np('arccos')(x[0])) != 0], which=0)
W('arctan', S.ATAN, 'arctan', which=0); W('sinh', S.SINH, 'sinhcosh', which=0); W('cosh', S.COSH, 'sinhcosh', which=1); W('tanh', S.TANH, 'tanhsech2', which=0)
W('reciprocal', S.RECIP, 'recip', lambda x: [x[0] != 0], obj='x', props=('C01', 'C02', 'C14'))
W('square', lambda x, j: S.CONV(x, x, j), None, obj='x', props=('C01', 'C02', 'C14')); W('negative', lambda x, j: -x[j], None, obj='x')
W('absolute', lambda x, j: sgn(x[0]) * x[j], None, lambda x: [x[0] != 0], obj='x'); W('expm1', Expm1.EXPM1, None)
