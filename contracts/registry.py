"""All contracts, keyed by the simple callee name used in the source (`cls._mul` -> '_mul')."""
from . import kernels, linalg, pullbacks, methods, composites, composites_sym
ALL = dict(kernels.REG); ALL.update(linalg.REG); ALL.update(pullbacks.REG); ALL.update(methods.REG); ALL.update(composites.REG); ALL.update(composites_sym.REG)
def tasks_for(property_id):
    out = []
    for key, con in ALL.items():
        if property_id in getattr(con, 'property_ids', ()):
            for cfg in con.cfgs: out.append((key, cfg))
    return out
