"""C04 -- graph derivative drivers return the derivatives at the requested point (bounded: run-time contracts, exact sympy oracle)."""
import random
from bounded import progs, tracer_checks as T
LEVEL = 'exploration'


def run(rep, tier, seed):
    rng = random.Random(3000 + seed)
    singles = [p for p in progs.single_op_programs(4)]
    rnd = progs.random_programs(12 if tier == 'quick' else 150, rng, N=4, maxlen=3 if tier == 'quick' else 4)
    total = 0; distinct = 0; skipped = {}; samples = []
    for p in singles + rnd:
        try: fails, n, skip = T.driver_contract(progs.scalarize(p), progs.vectorize(p), rng, rec_kinds=('ndarray', 'utpm2') if tier == 'quick' else ('ndarray', 'utpm1', 'utpm2', 'utpm3'))
        except Exception as e:
            skipped['oracle-unavailable:' + type(e).__name__] = skipped.get('oracle-unavailable:' + type(e).__name__, 0) + 1; continue
        if skip: skipped[skip] = skipped.get(skip, 0) + 1; continue
        if all(progs.OPS[st_[1]]['poly'] for st_ in p.stmts):
            # polynomial programs are defined everywhere: the same drivers at an integer-TYPED point (the derivative is not an integer)
            try:
                f2, n2, skip2 = T.driver_contract(progs.scalarize(p), progs.vectorize(p), rng, rec_kinds=('ndarray',), int_point=True)
                if not skip2: fails = fails + f2; n += n2
            except Exception as e: skipped['int-point:' + type(e).__name__] = skipped.get('int-point:' + type(e).__name__, 0) + 1
        total += n; distinct += 1
        if len(samples) < 3: samples.append({'program': p.describe(), 'driver_comparisons': n})
        seen = set()
        for f in fails:
            key = f['driver'] + f.get('x_dtype', '')
            if key in seen: continue
            seen.add(key)
            rep.violation('driver:' + f['driver'], 'record=%s%s' % (f['record_kind'], ' point-dtype=' + f['x_dtype'] if f.get('x_dtype', 'float64') != 'float64' else ''),
                          'driver %s on program %s recorded as %s: got %s want %s %s' % (f['driver'], f['program']['stmts'], f['record_kind'], f.get('got'), f.get('want'), f.get('error', '')),
                          {'kind': 'driver', **f})
    rep.add_bounded('driver contracts', total, distinct,
                    'gradient, hessian, hess_vec (program summed to a scalar) and jacobian, jac_vec, vec_jac, vec_hess, vec_hess_vec, jacobian(UTPM) (program made 1-D) on every corpus program, recorded at one point as ndarray / UTPM with D in {1,2,3} and evaluated at a different point (polynomial programs also at an integer-typed point); oracle: exact derivatives from sympy (symbols through the same program text), for jacobian(UTPM) forward propagation alone; distinct = programs with an available oracle',
                    samples, 'programs <= %d ops, N=4, M<=4, relative tolerance 1e-9' % (3 if tier == 'quick' else 4))
    rep.extra['skipped'] = skipped
    rep.extra['explanation'] = 'quantifies over programs and recording/evaluation points: bounded exploration with an exact oracle; the seed/slice plumbing of each driver is straight-line code checked here end to end'
    return 0
