"""C06 -- results are independent of call history (bounded: histories on one graph vs. the same call on a fresh graph)."""
import random
from bounded import progs, tracer_checks as T
from .common import deductive_part
LEVEL = 'exploration'


def run(rep, tier, seed):
    rc0, _res = deductive_part(rep, 'C06', tier, seed)          # frames of the pullbacks: a reverse sweep writes adjoints only (proved per pullback)
    rng = random.Random(4000 + seed)
    ps = progs.single_op_programs(4) + progs.random_programs(30 if tier == 'quick' else 400, rng, N=4, maxlen=4 if tier == 'quick' else 6)
    L = 6 if tier == 'quick' else 12
    reps = 2 if tier == 'quick' else 5
    total = 0; hist = set(); skipped = {}; samples = []
    for p in ps:
        for r in range(reps + len(T.SCENARIOS)):
            try: fails, n, trace = T.history_contract(p, rng, L, script=(T.SCENARIOS[r - reps] if r >= reps else None))
            except Exception as e:
                k = 'not-recordable:' + type(e).__name__; skipped[k] = skipped.get(k, 0) + 1; break
            total += n; hist.add((p.name, tuple(trace)))
            if len(samples) < 3: samples.append({'program': p.describe(), 'history': trace})
            for f in fails[:1]:
                rep.violation('history:' + (p.name if not p.name.startswith('rand') else 'program'), str(f.get('call')),
                              'after history %s the call %s differs from the same call on a freshly recorded graph (%s)' % (f.get('trace'), f.get('call'), f.get('error', 'values differ')),
                              {'kind': 'history', 'program': p.describe(), **f})
    rep.add_bounded('call histories', total, len(hist),
                    'scripted scenario histories (several sweeps after one forward; real -> complex -> real with identical (D,P); changing (D,P); drivers in between; second graph in between) and random histories over {forward evaluation (UTPM with D in 1..3, P in 1..2, real or complex coefficients, same or different (D,P) as before, or ndarray), reverse sweep with a fresh random seed (several per forward), driver call, recording + evaluating a second graph, repetition of the previous call}; every call is re-run on a graph freshly recorded at another point and the results must agree to 1e-12; distinct = distinct (program, history) pairs',
                    samples, 'history length <= %d, %d histories per program, programs <= %d ops' % (L, reps, 4 if tier == 'quick' else 6))
    rep.extra['skipped'] = skipped
    rep.extra['explanation'] = 'whole-history property: outside what per-call contracts decide (DESIGN 13); the two mechanisms by which state can leak (a pullback overwriting a forward value; buffer contents saved at record time) are also covered per call by C14/C03'
    return rc0
