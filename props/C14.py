"""C14 -- operands are never modified; aliased and in-place forms are safe."""
import random
from .common import deductive_part, ASSUME
from .opbased import op_part
from bounded import misc_checks, operators
LEVEL = 'proof'


def run(rep, tier, seed):
    # proved: frame clauses (`modifies` = out only) and every aliasing configuration of the kernels under contract
    rc, res = deductive_part(rep, 'C14', tier, seed)
    n, d, samples = op_part(rep, 'C14', tier, seed)
    rep.add_bounded('operand frames', n, d, 'byte-wise comparison of every argument before/after every op of the table', samples, 'D<=6,P<=3')
    rng = random.Random(6500 + seed); m = 0; k = set(); s2 = []
    for case, fail in misc_checks.tracer_frames(rng, tier):
        m += 1; k.add(str(case['program']))
        if len(s2) < 2: s2.append(case)
        if fail: rep.violation('tracer frames', str([s[1] for s in case['program']['stmts']]), '%s: %s' % (case['program']['stmts'], fail), {'kind': 'tracer-frame', 'case': case, 'failure': fail})
    rep.add_bounded('tracer: inputs, seeds and forward values', m, len(k), 'recording, forward and reverse sweeps leave the user input, the seed and every node value byte-identical', s2, 'programs <= 4 ops')
    a = 0; ka = set()
    for case, fail in operators.run(random.Random(6600 + seed), 'quick'):
        if 'same object' not in str(case.get('kinds')) and 'view' not in str(case.get('kinds')): continue
        a += 1; ka.add((case['op'], case['kinds'], case['D'], case['P'], str(case['shape'])))
        if fail: rep.violation('operator %s %s' % (case['op'], case['kinds']), 'alias', '%s: %s' % (case, fail), {'kind': 'alias', 'case': case, 'failure': fail})
    rep.add_bounded('x op x / x op= x / x op= view(x)', a, len(ka), 'all binary and in-place operators with both operands the same object or the right one a view of the left, vs independent copies', [{'op': '*=', 'kinds': 'x op= x (same object)'}], 'D<=3,P<=2')
    m = 0; kk = set(); s4 = []
    for case, fail in misc_checks.linalg_frames(random.Random(6700 + seed), tier):
        m += 1; kk.add((case['fn'], str(case['shape']), case['D'], case['P'], case['layout']))
        if len(s4) < 2: s4.append(case)
        if fail: rep.violation('frame:%s' % case['fn'], case['layout'], '%s: %s' % (case, fail), {'kind': 'linalg-frame', 'case': case, 'failure': fail})
    rep.add_bounded('matrix functions and factorizations: operand frames in three memory layouts', m, len(kk), 'qr, qr_full, cholesky, lu, eigh, eig, svd, inv, det, logdet, expm, trace, solve, dot, diag, triu, symvec, sum: the operand and the array owning the view passed are byte-identical after the call; layouts C-contiguous / every (d,p) slice Fortran-contiguous / strided view', s4, 'sizes <= 4, D <= 4, P <= 3')
    rep.assume(*[ASSUME[k_] for k_ in ('A3', 'A4', 'A6', 'A8', 'A8b', 'A9', 'A11')])
    rep.extra['explanation'] = 'proved: exact frames of the kernels under contract for every aliasing configuration used at a call site; bounded: the public operation layer and the tracer'
    return rc
