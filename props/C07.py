"""C07 -- linear-algebra functions propagate matrix Taylor polynomials correctly."""
from .common import deductive_part, ASSUME
from .genbounded import feed
from bounded import linalg_checks
LEVEL = 'proof'


def run(rep, tier, seed):
    rc, res = deductive_part(rep, 'C07', tier, seed)
    feed(rep, linalg_checks.c07_all, 7000 + seed, tier, 'linear algebra table',
         'dot over every rank combination (1-D/2-D/N-D) and operand kind (UTPM,UTPM / UTPM,ndarray / ndarray,UTPM), outer (equal and different lengths), inv, solve (vector and multi-column right-hand sides, constant operands, base matrices that need row pivoting), det (Leibniz expansion in independent truncated arithmetic), logdet, trace, expm inside the Pade range (against the exponential series propagated in independent arithmetic); residuals A inv(A) = I and A X = B formed by bounded/polyarith.py, different base matrices per direction; higher coefficients dense, linear-only (A_0 + t A_1), with a gap (A_1 = 0) and constant',
         'sizes <= 3, D <= 5, P <= 3', lambda c: ('linalg:%s' % c['fn'], str(c.get('kinds', '')) + str(c.get('shapes', c.get('n', '')))))
    import random
    from bounded import misc_checks
    m = 0; keys = set(); s3 = []
    for case, fail in misc_checks.dot_mixed_kinds(random.Random(7100 + seed), tier):
        m += 1; keys.add((case['kinds'], str(case['shapes']), case['D'], case['P']))
        if len(s3) < 2: s3.append(case)
        if fail: rep.violation('dot[%s]' % case['kinds'], str(case['shapes']), '%s: %s' % (case, fail), {'kind': 'dot with a constant operand', 'case': case, 'failure': fail})
    rep.add_bounded('dot with a plain-array operand, ranks 1..3', m, len(keys), 'dot(ndarray, UTPM) and dot(UTPM, ndarray) for operand ranks 1..3 (N-D right operands included): every coefficient slice equals numpy.dot with the constant', s3, 'D<=3, P<=2, rank<=3')
    from .opbased import integer_part
    integer_part(rep, 'C07', tier, seed, ('linalg',))
    rep.assume(*[ASSUME[k] for k in ('A3', 'A5', 'A6', 'A8', 'A9', 'A11')], 'approximation error of the Pade approximant in expm is outside this family (only the propagation of the Taylor coefficients through it is checked)')
    rep.extra['explanation'] = 'proved: the explicit (d,p,c) loops of _dot, _dot_non_UTPM_x/_y, _outer*, _inv, _solve* with matrices as elements of an uninterpreted non-commutative ring (all sizes N at once); bounded: rank logic of UTPM.dot/outer/solve, det/logdet (compositions over LU), expm'
    return rc
