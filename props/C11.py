"""C11 -- directions are propagated independently."""
import random
from .opbased import op_part
from bounded import misc_checks
LEVEL = 'exploration'


def run(rep, tier, seed):
    n, d, samples = op_part(rep, 'C11', tier, seed)
    rep.add_bounded('per-operation direction independence', n, d, 'every op: result for P directions with different base points vs. each direction evaluated alone', samples, 'P<=3, D<=6')
    rng = random.Random(6200 + seed); m = 0; k = set(); s2 = []
    for case, fail in misc_checks.program_direction_degree(rng, tier, 'C11'):
        m += 1; k.add(str(case['program']))
        if len(s2) < 2: s2.append({'program': case['program']})
        if fail: rep.violation('program directions', str([s[1] for s in case['program']['stmts']]), '%s: %s' % (case['program']['stmts'], fail), {'kind': 'program', 'case': case, 'failure': fail})
    rep.add_bounded('programs: forward and reverse sweep per direction', m, len(k), 'corpus programs on P=3 directions with distinct base points: forward value and reverse-sweep adjoint of each direction equal the single-direction evaluation (same seed slice)', s2, 'programs <= 6 ops, P=3, D=3')
    m3 = 0; k3 = set(); s3 = []
    for case, fail in misc_checks.factorization_directions(random.Random(6250 + seed), tier):
        m3 += 1; k3.add(str(sorted(case.items())))
        if len(s3) < 2: s3.append(case)
        if fail: rep.violation('factorization directions:%s' % case['factorization'], case.get('mode', ''), '%s: %s' % (case, fail), {'kind': 'factorization', 'case': case, 'failure': fail})
    rep.add_bounded('factorizations per direction (forward and reverse)', m3, len(k3), 'qr, qr_full, cholesky, lu, eigh, svd, inv, det, logdet on P directions with different base matrices (for eigh the last direction has an exactly repeated eigenvalue): forward outputs and the reverse-sweep adjoint through the traced factorization equal the single-direction runs', s3, 'sizes 2-3, D<=3, P<=3')
    rep.extra['explanation'] = 'direction-parametricity of the kernels is what licenses the one-batch-cell abstraction of the C01/C02 proofs (checked by the engine: any non-trivial batch subscript makes a kernel leave the subset); the per-direction claim for whole programs is bounded'
    return 0
