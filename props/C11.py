"""C11 -- directions are propagated independently."""
import random
from .opbased import op_part
from bounded import misc_checks
LEVEL = 'exploration'


def run(rep, tier, seed):
    # structural part (AST engine): every function under contract is direction-parametric -- it is executed symbolically with ONE generic
    # direction index; a non-trivial batch subscript (x[0,0], x[d,1], ...) or an unmodelled whole-array construct makes it leave the subset
    from lib import deductive
    from contracts import registry
    tasks = [(k, cfg) for k, con in registry.ALL.items() for cfg in con.cfgs]
    for r in deductive.dp_scan(tasks):
        rep.add_structural('DP/%s[%s]' % (r['function'], r['cfg']), r['verdict'] if r['verdict'] == 'holds' else 'skipped', r['detail'], backend='AST (vc/engine.py)')
        if r['verdict'] != 'holds': rep.undecide('DP/%s[%s]' % (r['function'], r['cfg']), r['detail'])
    n, d, samples = op_part(rep, 'C11', tier, seed)
    rep.add_bounded('per-operation direction independence', n, d, 'every op: result for P directions with different base points vs. each direction evaluated alone', samples, 'P<=3, D<=6')
    rng = random.Random(6200 + seed); m = 0; k = set(); s2 = []
    for case, fail in misc_checks.program_direction_degree(rng, tier, 'C11'):
        m += 1; k.add(str(case['program']))
        if len(s2) < 2: s2.append({'program': case['program']})
        if fail: rep.violation('program directions', str([s[1] for s in case['program']['stmts']]), '%s: %s' % (case['program']['stmts'], fail), {'kind': 'program', 'case': case, 'failure': fail})
    rep.add_bounded('programs: forward and reverse sweep per direction', m, len(k), 'corpus programs on P=3 directions with distinct base points: forward value and reverse-sweep adjoint of each direction equal the single-direction evaluation (same seed slice)', s2, 'programs <= 6 ops, P=3, D=3')
    m3 = 0; k3 = set(); s3 = []
    for case, fail in misc_checks.factorization_directions(random.Random(6250 + seed), tier):
        m3 += 1; k3.add(str(sorted(case.items())))
        if len(s3) < 2: s3.append(case)
        if fail: rep.violation('factorization directions:%s' % case['factorization'], case.get('mode', ''), '%s: %s' % (case, fail), {'kind': 'factorization', 'case': case, 'failure': fail})
    rep.add_bounded('factorizations per direction (forward and reverse)', m3, len(k3), 'qr, qr_full, cholesky, lu, eigh, svd, inv, det, logdet on P directions with different base matrices (for eigh the last direction has an exactly repeated eigenvalue): forward outputs and the reverse-sweep adjoint through the traced factorization equal the single-direction runs', s3, 'sizes 2-3, D<=3, P<=3')
    rep.extra['explanation'] = 'direction-parametricity of the kernels is what licenses the one-batch-cell abstraction of the C01/C02 proofs (checked by the engine: any non-trivial batch subscript makes a kernel leave the subset); the per-direction claim for whole programs is bounded; assumption A3b: operands of equal rank (NumPy broadcasting of the direction axis against a lower-rank operand is outside the model and covered by the bounded operator matrix)'
    return 0
