"""C12 -- low-order coefficients do not depend on the truncation degree."""
import random
from .common import deductive_part, ASSUME
from .opbased import op_part
from bounded import misc_checks
LEVEL = 'proof'


def run(rep, tier, seed):
    # proved part: the postconditions of the kernel contracts are stated with spec functions T(x, d) that do not take D
    # (contracts/spec.py); proving `forall d<D. y[d] = T(x,d)` for symbolic D is degree independence of the kernel.
    rc, res = deductive_part(rep, 'C12', tier, seed)
    n, d, samples = op_part(rep, 'C12', tier, seed)
    rep.add_bounded('per-operation degree independence', n, d, 'every op: coefficients < D\' of the degree-D result equal the result computed from inputs truncated to D\', all D\' < D', samples, 'D<=6')
    rng = random.Random(6300 + seed); m = 0; k = set(); s2 = []
    for case, fail in misc_checks.program_direction_degree(rng, tier, 'C12'):
        m += 1; k.add(str(case['program']))
        if len(s2) < 2: s2.append({'program': case['program']})
        if fail: rep.violation('program degrees', str([s[1] for s in case['program']['stmts']]), '%s: %s' % (case['program']['stmts'], fail), {'kind': 'program', 'case': case, 'failure': fail})
    rep.add_bounded('programs: forward and reverse sweep across degrees', m, len(k), 'corpus programs: forward value and reverse-sweep adjoint coefficients < D\' for D=4 vs D\' in 1..3 (seed truncated)', s2, 'programs <= 6 ops, D=4')
    from .genbounded import feed
    from bounded import linalg_checks
    feed(rep, linalg_checks.c12_factorizations, 6350 + seed, tier, 'factorizations across degrees',
         'qr, cholesky, lu, eigh (distinct eigenvalues: all outputs; exactly repeated eigenvalue: eigenvalues and the invariant Q diag(lambda^2) Q^T): coefficients < D\' computed with D = 7 equal those computed from the input truncated to D\' in {3, 6}',
         'sizes <= 5, D = 7, P <= 2', lambda c: ('degree:%s' % c['fn'], 'n=%s' % c['n']))
    rep.assume(*[ASSUME[k_] for k_ in ('A1', 'A3', 'A6', 'A8', 'A8b', 'A9', 'A11')])
    rep.extra['explanation'] = 'the spec functions of contracts/spec.py take (coefficient array, order) and not D; their defining recursion at order n reads x[0..n] only (causality by construction), so every discharged kernel postcondition is a proof of degree independence for that kernel'
    return rc
