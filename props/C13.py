"""C13 -- shape-manipulating operations act slice-wise like NumPy, with view semantics."""
import random
from .opbased import op_part
from .common import deductive_part
from bounded import misc_checks
LEVEL = 'exploration'


def run(rep, tier, seed):
    rc0, _res = deductive_part(rep, 'C13', tier, seed)          # _transpose: every matrix cell transposed, nothing written (the one shape operation inside the executor's model)
    n, d, samples = op_part(rep, 'C13', tier, seed, kinds=('getitem', 'transpose', 'reshape', 'sum', 'tile', 'diag', 'tri', 'trace', 'neg', 'conj', 'real', 'imag', 'fft', 'ifft', 'zeros', 'ones', 'symvec'))
    rep.add_bounded('slice-wise table', n, d, 'indexing (ints, negative, steps, Ellipsis, newaxis, tuples), transpose, reshape, sum over every axis, tile, diag, triu/tril, trace, neg, conjugate, real/imag, fft/ifft (axis, n), zeros/ones_like: out.data[d,p] == NumPy op on x.data[d,p]; numpy.shares_memory agreement and write-through for views', samples, 'rank<=3, D<=6, P<=3')
    rng = random.Random(6400 + seed); m = 0; k = set(); s2 = []
    for case, fail in misc_checks.setitem(rng, tier):
        m += 1; k.add(str(sorted(case.items())))
        if len(s2) < 2: s2.append(case)
        if fail: rep.violation('setitem/ctor', str(case.get('index', case.get('ctor'))) + ':' + str(case.get('rhs', '')), '%s: %s' % (case, fail), {'kind': 'setitem', 'case': case, 'failure': fail})
    rep.add_bounded('item assignment and constructors', m, len(k), 'x[index] = rhs for rhs in {UTPM, broadcast UTPM, float, int, ndarray} x basic index forms vs the NumPy assignment per slice (constants clear higher coefficients); zeros/ones with polynomial dtype', s2, 'rank<=2')
    rep.extra['explanation'] = 'NumPy is the executable specification; the index plumbing (slice(None),slice(None))+sl is straight-line code exercised over all basic index forms'
    return rc0
