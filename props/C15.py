"""C15 -- exact-interpolation coefficients reconstruct mixed partial derivatives."""
from .common import deductive_part, ASSUME
from .genbounded import feed
from bounded import more_checks
LEVEL = 'other'


def run(rep, tier, seed):
    rc, res = deductive_part(rep, 'C15', tier, seed)
    feed(rep, more_checks.c15, 15000 + seed, tier, 'Gamma identity, exhaustive in (N,d)',
         'for every (N,d) in the bound: multi-index list == all compositions of d into N parts, each once; Gamma computed by the REAL source of algopy/exact_interpolation.py evaluated in exact rational arithmetic (mechanical AST transform: float literals and float() -> Fraction; shims: multi_index_abs result as Python int, numpy.prod of a list formed exactly) satisfies sum_j Gamma[i,j] ray_j^alpha == delta(i,alpha) EXACTLY for all multi-indices i, alpha of degree d; native float Gamma within 1e-9 of the exact one',
         'N + d <= %d, exhaustive' % (6 if tier == 'quick' else 9), lambda c: ('interpolation:%s' % c['what'], 'N=%d,d=%d' % (c['N'], c['d'])))
    rep.extra['exhaustive'] = True
    rep.extra['explanation'] = 'the identity for all (N,d) is the Griewank-Utke-Walther theorem, outside an SMT-backed verifier; the property itself asks for the bounded exhaustive exact check. Proved part (when listed above): increment(i,k) is the lexicographic successor in the box 0<=k<=i'
    return rc
