"""C16 -- closed-form n-th derivatives are the true derivatives."""
from .common import deductive_part, ASSUME
from .genbounded import feed
from bounded import more_checks
LEVEL = 'other'


def run(rep, tier, seed):
    rc, res = deductive_part(rep, 'C16', tier, seed)
    feed(rep, more_checks.c16, 16000 + seed, tier, 'n-th derivatives vs mpmath',
         'every exported function of algopy.nthderiv, n = 0..n_max, points on the declared domain, extra parameters (polygamma m, hyperu a,b, clip bounds): value compared with mpmath.diff at 50 digits (n=0: the function itself); piecewise-constant functions: zero derivatives; negative order refused',
         'n <= %d, 3-8 points per function' % (5 if tier == 'quick' else 8), lambda c: ('nthderiv:%s' % c['function'], 'n=%s' % c.get('n')))
    rep.extra['explanation'] = 'hybrid: step contracts f(x,n+1) = d/dx f(x,n) for the algebraic family where proved + bounded high-precision comparison; counted separately'
    rep.assume('mpmath numerical differentiation at 50 digits is accurate to 1e-8 for n <= 8')
    return rc
