"""C03 -- reverse mode agrees with forward mode at every Taylor order.

Decided by: (P) SIG structural obligations over the real tracer AST; (B) the adjoint identity
<xbar,v> = <ybar,F'(x)v> mod t^D as a run-time contract on CGraph.pullback over the program corpus (bounded)."""
import random
from lib.report import REPO
from structural import sig
from bounded import progs, tracer_checks as T
from .common import ASSUME, deductive_part
LEVEL = 'exploration'


def run(rep, tier, seed):
    rc0, _res = deductive_part(rep, 'C03', tier, seed)          # per-operation adjoint formula + frame of the element-wise pullbacks (proved)
    rng = random.Random(1000 + seed)
    # ---- structural: SIG
    confirmed_by_corpus = {}
    sigres = sig.check(REPO)
    # ---- bounded: adjoint identity
    singles = progs.single_op_programs(4)
    configs = [(1, 1), (3, 2)] if tier == 'quick' else [(1, 1), (2, 1), (3, 2), (4, 3)]
    res = T.run_adjoint_corpus(singles, configs, rng, patterns=('dense', 'zero0', 'last', 'special-point'))
    bad_ops = set()
    counts = {}
    for o in res:
        counts[o['status']] = counts.get(o['status'], 0) + 1
        if o['status'] in ('mismatch', 'sweep-raises', 'seed-modified'):
            bad_ops.add(o['program'])
            rep.violation('reverse:' + o['program'], o['status'],
                          'reverse sweep of single-op program %s (D=%d,P=%d): %s %s' % (o['program'], o['D'], o['P'], o['status'], o['detail']),
                          {'kind': 'adjoint', **{k: o[k] for k in ('program', 'D', 'P', 'desc', 'x', 'v', 'status', 'detail') if k in o}, 'ybar': o.get('ybar')})
    # SIG results: a failing SIG obligation is a violation only when the corpus reproduced a failure of that op natively
    failing_funcs = {o['program'].split('[')[0] for o in res if o['status'] in ('mismatch', 'sweep-raises')}
    for r in sigres:
        if r['verdict'] == 'fails':
            f = r.get('func', '')
            hit = any(f == b.split('[')[0] or b.startswith(f + '2d') or b.startswith(f) for b in failing_funcs)
            if hit: rep.add_structural(r['name'], 'fails', r['detail'] + ' ; confirmed natively by the adjoint contract')
            else:
                # a structural candidate is a violation only after a native run reproduced a failure of that recording site
                conf = confirm_sig(f, r)
                if isinstance(conf, tuple):
                    # recording through this site raises before a node exists: no trace can contain a node with this argument layout
                    rep.add_structural(r['name'], 'holds', r['detail'] + ' ; vacuous: ' + conf[1])
                elif conf:
                    rep.add_structural(r['name'], 'fails', r['detail'] + ' ; confirmed natively: ' + conf)
                    rep.violation('SIG:' + f, 'signature', 'pullback signature does not conform to the tracer call: %s ; native run: %s' % (r['detail'], conf), {'kind': 'SIG', **r, 'native': conf})
                else:
                    rep.add_structural(r['name'], 'undecided', r['detail'] + ' ; candidate not reproducible natively (recording site unreachable with Taylor-polynomial values)')
                    rep.undecide(r['name'], 'signature candidate for %s could not be exercised natively: %s' % (f, r['detail']))
        else: rep.add_structural(r['name'], r['verdict'] if r['verdict'] in ('skipped', 'no-pullback') else 'holds', r['verdict'] + ': ' + r['detail'])
    # random compositions over the ops that are individually fine
    n = 40 if tier == 'quick' else 400
    good = [k for k in progs.OPS]
    rp = [p for p in progs.random_programs(n * 2, rng, N=4, maxlen=4 if tier == 'quick' else 6) if not uses_bad(p, bad_ops)][:n]
    res2 = T.run_adjoint_corpus(rp, [(3, 2)] if tier == 'quick' else [(2, 1), (4, 2)], rng, patterns=('dense', 'zero0', 'special-point'))
    for o in res2:
        counts[o['status']] = counts.get(o['status'], 0) + 1
        if o['status'] in ('mismatch', 'sweep-raises', 'seed-modified'):
            rep.violation('reverse:program', '%s:%s' % (o['status'], [s[1] for s in o['desc']['stmts']]),
                          'reverse sweep of generated program %s: %s %s' % (o['desc']['stmts'], o['status'], o['detail']),
                          {'kind': 'adjoint', **{k: o[k] for k in ('program', 'D', 'P', 'desc', 'x', 'v', 'status', 'detail')}, 'ybar': o.get('ybar')})
    allres = res + res2
    distinct = len({(o['program'], o['D'], o['P']) for o in allres if o['status'] in ('ok', 'mismatch')})
    rep.add_bounded('adjoint identity on recorded programs', len(allres), distinct,
                    'single-op programs for every differentiable op/variant (constants on either side, all basic index forms, dot of every rank pair, buffers with overwrites) plus seeded random compositions; seed ybar random and non-symmetric with patterns {dense at all orders, order-0 coefficient zero, only the highest order non-zero}, base points generic and special (0/1 entries, where intermediate adjoints vanish at order 0); x(t) with distinct base points per direction; F\'(x)v from forward propagation alone (order-shift at degree 2D); non-trivial = sweep completed and D*P inputs have non-zero higher coefficients',
                    [{'program': o['desc'], 'D': o['D'], 'P': o['P'], 'status': o['status']} for o in allres[:2]],
                    'programs <= %d ops, D <= %d, P <= %d, N = 4' % (4 if tier == 'quick' else 6, max(c[0] for c in configs), max(c[1] for c in configs)))
    rep.extra['status_counts'] = counts
    rep.extra['explanation'] = 'the universally quantified statement over all programs is out of reach of contract-based verification (DESIGN 13); proved part = SIG obligations; the rest is bounded'
    rep.assume(ASSUME['A6'], ASSUME['A8b'], 'forward mode (used as the oracle for F\'(x)v through the order-shift identity) is correct: C01/C02/C07 contracts', 'C12 (degree independence) for the order-shift identity')
    return rc0


def uses_bad(p, bad_ops):
    """a random program is excluded when it contains an op variant that already failed on its own (reported there)"""
    bad_names = {b.split('[')[0] for b in bad_ops}
    for (_, opn, args, params) in p.stmts:
        if opn in bad_names: return True
        if opn == 'sum' and params.get('axis') is not None and any(b.startswith('sum2d') for b in bad_ops): return True
        if opn in ('dot', 'dot_c') and any(b.startswith('dot') for b in bad_ops): return True
        if opn == 'reshape' and any(b.startswith('reshape') for b in bad_ops): return True
        if opn == 'getitem' and any(b.startswith('getitem') for b in bad_ops) and params.get('sl') is None: return True
    return False


def confirm_sig(fname, r=None):
    """try to exercise the recording site natively: returns a description of the failure, None (could not be exercised), or
    ('unreachable', why) when recording through that very site raises for every kind of `out` (no node is ever created there)"""
    import numpy
    a = T.A()
    if fname == 'sum' and r is not None and 'out' in r.get('detail', '').split('recorded args')[-1]:
        x = a.UTPM(numpy.arange(1., 7.).reshape(2, 1, 3) / 4.); raised = []
        for mk in (lambda: a.UTPM(numpy.zeros((2, 1))), lambda: a.Function(a.UTPM(numpy.zeros((2, 1)))), lambda: numpy.zeros(())):
            cg = a.CGraph(); fx = a.Function(x); o_ = mk(); n0 = len(cg.functionList)
            try: fx.sum(None, None, o_)
            except NotImplementedError as e: raised.append(len(cg.functionList) == n0)
            except Exception: raised.append(False)
            else: raised.append(False)
        if raised and all(raised): return ('unreachable', 'Function.sum(out=...) raises NotImplementedError while recording (UTPM.sum does not implement out=) and records no node')
        return None
    try:
        x = a.UTPM(numpy.arange(1., 7.).reshape(2, 1, 3) / 4.)
        cg = a.CGraph(); fx = a.Function(x)
        if fname == 'coeff_op': fy = fx.coeff_op((slice(None), slice(None), slice(0, 2)), (2, 1, 2))
        elif fname == 'sum': fy = fx.sum(0, None, None)
        else: return None
        cg.trace_off(); cg.independentFunctionList = [fx]; cg.dependentFunctionList = [fy]
        cg.pushforward([x]); ybar = fy.x.zeros_like(); ybar.data[...] = 1.
        cg.pullback([ybar])
        if fname == 'sum':
            want = numpy.ones_like(x.data)
            if not numpy.allclose(fx.xbar.data, want): return 'xbar = %s, expected all ones' % fx.xbar.data.tolist()
        return None
    except Exception as e:
        msg = [l for l in str(e).splitlines() if l.strip()]
        return 'reverse sweep raises: %s' % (msg[-1][:200] if msg else type(e).__name__)
