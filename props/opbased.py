"""shared driver for the op-table based bounded parts"""
import random
from bounded import opchecks


def op_part(rep, pid, tier, seed, kinds=None, label='operation table'):
    rng = random.Random(6000 + seed)
    n = 0; keys = set(); samples = []
    for prop, name, case, fail in opchecks.run(rng, tier, want=(pid,)):
        if prop not in (pid, 'ANY'): continue
        if prop == 'ANY' and kinds is not None and not any(name.startswith(k) for k in kinds): continue
        n += 1; keys.add((name, case['D'], case['P'], str(case['shapes'])))
        if len(samples) < 3 and n % 41 == 1: samples.append({k: v for k, v in case.items() if k != 'inputs'})
        if fail: rep.violation('op:' + name, '%s' % ('raises' if prop == 'ANY' else 'contract'), '%s (D=%d,P=%d,shapes=%s): %s' % (name, case['D'], case['P'], case['shapes'], fail), {'kind': 'op', 'property': pid, 'case': case, 'failure': fail})
    return n, len(keys), samples
