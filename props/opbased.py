"""shared driver for the op-table based bounded parts"""
import random
from bounded import opchecks


def op_part(rep, pid, tier, seed, kinds=None, label='operation table'):
    rng = random.Random(6000 + seed)
    n = 0; keys = set(); samples = []
    for prop, name, case, fail in opchecks.run(rng, tier, want=(pid,)):
        if prop not in (pid, 'ANY'): continue
        if prop == 'ANY' and kinds is not None and not any(name.startswith(k) for k in kinds): continue
        n += 1; keys.add((name, case['D'], case['P'], str(case['shapes'])))
        if len(samples) < 3 and n % 41 == 1: samples.append({k: v for k, v in case.items() if k != 'inputs'})
        if fail: rep.violation('op:' + name, '%s' % ('raises' if prop == 'ANY' else 'contract'), '%s (D=%d,P=%d,shapes=%s): %s' % (name, case['D'], case['P'], case['shapes'], fail), {'kind': 'op', 'property': pid, 'case': case, 'failure': fail})
    return n, len(keys), samples


INT_SITE = 'integer-typed coefficient arrays'

def integer_part(rep, pid, tier, seed, kinds):
    """polynomials built from integer-typed coefficient arrays against the same values in floating point (opchecks.integer_typed_pass)"""
    rng = random.Random(6500 + seed); n = 0; keys = set(); samples = []
    for k, name, case, fail in opchecks.integer_typed_pass(rng, tier, kinds):
        n += 1; keys.add((name, case['D'], case['P'], str(case['shapes'])))
        if len(samples) < 2: samples.append(case)
        if fail: rep.violation(INT_SITE, '%s:%s' % (k, name), '%s (D=%d,P=%d,shapes=%s): %s' % (case['op'], case['D'], case['P'], case['shapes'], fail), {'kind': 'integer-typed', 'property': pid, 'case': case, 'failure': fail})
    rep.add_bounded('integer-typed coefficient arrays', n, len(keys), 'every %s operation of the table on polynomials built from integer-typed coefficient arrays (small integers, zeroth coefficient an integer of the domain of smoothness): the result must equal the result for the same values in floating point; a silent truncation and a casting error both count' % '/'.join(kinds), samples, 'D<=%d, P<=%d' % ((3, 2) if tier == 'quick' else (4, 3)))
