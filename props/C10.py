"""C10 -- zeroth coefficient, shapes and comparisons follow NumPy (bounded table look-up against NumPy/SciPy themselves)."""
import random
from .opbased import op_part
from bounded import misc_checks
LEVEL = 'exploration'


def run(rep, tier, seed):
    n, d, samples = op_part(rep, 'C10', tier, seed)
    rep.add_bounded('zeroth coefficient / shape table', n, d, 'every op of bounded/optable.py x argument shapes x (D,P): result.data[0,p] == NumPy/SciPy function of the zeroth coefficients per direction, shape/ndim/size/len equal, and plain-array calls return exactly the NumPy result; directions have different base points; distinct = (op, D, P, shapes)', samples, 'D<=6, P<=3, rank<=3')
    rng = random.Random(6100 + seed); m = 0; keys = set(); s2 = []
    for case, fail in misc_checks.comparisons(rng, tier):
        m += 1; keys.add((case['cmp'], case['other'], case['D'], case['P'], str(case['shape'])))
        if len(s2) < 2: s2.append(case)
        if fail: rep.violation('comparison %s' % case['cmp'], case['other'], '%s: %s' % (case, fail), {'kind': 'comparison', 'case': case, 'failure': fail})
    rep.add_bounded('comparison operators', m, len(keys), '<,<=,>,>=,== between UTPM and UTPM/scalar/ndarray; cases with equal zeroth and different higher coefficients, uniformly larger, mixed; oracle numpy.all(cmp(x0, y0))', s2, 'D<=3, P<=2, rank<=2')
    m = 0; keys = set(); s3 = []
    for case, fail in misc_checks.dot_mixed_kinds(rng, tier):
        m += 1; keys.add((case['kinds'], str(case['shapes']), case['D'], case['P']))
        if len(s3) < 2: s3.append(case)
        if fail: rep.violation('dot[%s]' % case['kinds'], str(case['shapes']), '%s: %s' % (case, fail), {'kind': 'dot with a constant operand', 'case': case, 'failure': fail})
    rep.add_bounded('dot with a plain-array operand', m, len(keys), 'dot(ndarray, UTPM) and dot(UTPM, ndarray) for operand ranks 1..3 (including right operands of rank 3 whose last three axes have equal length): shape and every coefficient slice equal numpy.dot with the constant', s3, 'D<=3, P<=2, rank<=3')
    m = 0; keys = set(); s4 = []
    for case, fail in misc_checks.plain_dispatch(rng, tier):
        m += 1; keys.add((case['function'], case['arg']))
        if len(s4) < 2: s4.append(case)
        if fail: rep.violation('plain call %s' % case['function'], '%s | %s' % (case['arg'], ' '.join(fail.split()[:2]) if fail.startswith('raises') else 'differs'), '%s: %s' % (case, fail), {'kind': 'plain-argument dispatch', 'case': case, 'failure': fail})
    rep.add_bounded('plain arrays and scalars', m, len(keys), 'every callable of the algopy, algopy.special and algopy.fft namespaces with a NumPy / numpy.linalg / numpy.fft / scipy.linalg / scipy.special namesake (discovered, not listed; expm left out as a documented approximation) x {Python float, int, numpy.float64, 0-d, 1-d, 2-d C/F/transposed, integer arrays} and 15 operand pairs/triples for namesakes with several operands: where the namesake returns a value the algopy function returns the same shape and values', s4, '10 argument kinds + 15 tuples, sizes <= 3')
    rep.extra['explanation'] = 'an executable specification (NumPy itself) is the oracle; deduction adds nothing beyond the y[0] = f(x[0]) clause that is part of every kernel contract under C01/C02/C07'
    return 0
