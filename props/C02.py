"""C02 -- arithmetic is exact truncated power-series arithmetic for every operand mix."""
import random
from .common import deductive_part, ASSUME
from bounded import operators
LEVEL = 'proof'


def run(rep, tier, seed):
    rc, res = deductive_part(rep, 'C02', tier, seed)
    rng = random.Random(5000 + seed)
    n = 0; keys = set(); samples = []
    for case, fail in operators.run(rng, tier):
        n += 1; keys.add((case.get('op'), case.get('order'), case.get('const'), case.get('kinds'), case.get('r'), tuple(map(str, case.get('shapes', [case.get('shape')]))), case['D'], case['P'], str(case.get('complex', case.get('x_complex')))))
        if len(samples) < 4 and n % 97 == 1: samples.append({k: v for k, v in case.items() if k != 'x'})
        if fail:
            site = 'operator %s %s' % (case.get('op'), case.get('kinds') or case.get('const') or case.get('r') or case.get('base'))
            rep.violation(site, '%s' % (case.get('order') or ''), '%s: %s  (case %s)' % (site, fail, {k: v for k, v in case.items() if k != 'x'}), {'kind': 'operator', 'case': case, 'failure': fail})
    rep.add_bounded('operator matrix', n, len(keys),
                    'operators +,-,*,/ with constants of every kind (python int/float/complex, numpy scalars, ndarray: same shape, int, complex, one more leading dimension (3 and P), last-dim, length-1) on either side; in-place forms; ** with int/float/complex exponents, scalar bases, polynomial exponents; UTPM op UTPM over all broadcastable shape pairs and real/complex mixes; x op x, x op= x, x op= view(x). Oracle: independent truncated arithmetic (bounded/polyarith.py) per broadcast element; complex results must stay complex. distinct = distinct (op, kinds, shapes, D, P, dtype mix)',
                    samples, 'D<=%d, P<=%d, rank<=3, dims<=3' % ((3, 2) if tier == 'quick' else (4, 3)))
    from .opbased import integer_part
    integer_part(rep, 'C02', tier, seed, ('arith',))
    rep.assume(*[ASSUME[k] for k in ('A1', 'A3', 'A4', 'A6', 'A8', 'A9', 'A10', 'A11', 'CPLX')])
    rep.extra['explanation'] = 'proved: the ring kernels (_mul,_amul,_truediv,_itruediv,_square,_reciprocal) for all D and every aliasing configuration used by a call site; bounded: the operator methods (operand-kind dispatch, broadcasting, dtype promotion)'
    return rc
