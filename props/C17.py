"""C17 -- conversions between representations are lossless and mutually inverse."""
from .common import deductive_part, ASSUME
from .genbounded import feed
from bounded import more_checks
LEVEL = 'other'


def run(rep, tier, seed):
    rc, res = deductive_part(rep, 'C17', tier, seed)
    feed(rep, more_checks.c17, 17000 + seed, tier, 'round trips and pivot enumeration',
         'base point + directions <-> polynomial (both directions, bit-wise), symvec/vecsym for UPLO in F,L,U (UTPM and ndarray), containers of polynomials <-> one polynomial, shift(s) then shift(-s) for all |s| <= D incl. s = 0, every LAPACK-style pivot vector (piv[i] >= i) for N <= bound: piv2mat is the permutation with P L U = A and piv2det = det(P); cross-check with scipy.linalg.lu_factor: P L U = A, det(A) = sign * prod(diag(U))',
         'N <= %d (pivot vectors enumerated exhaustively), ranks <= 2' % (4 if tier == 'quick' else 6), lambda c: ('conversion:%s' % c['conv'], str(c.get('N', c.get('n', c.get('s', ''))))))
    rep.extra['explanation'] = 'hybrid: loop-invariant proofs of the index helpers where listed above + bounded exhaustive round trips'
    return rc
