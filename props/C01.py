"""C01 -- elementary functions return the Taylor coefficients of f(x(t))."""
from .common import deductive_part, ASSUME
from .opbased import op_part
LEVEL = 'proof'


def run(rep, tier, seed):
    rc, res = deductive_part(rep, 'C01', tier, seed)
    n, d, samples = op_part(rep, 'C01', tier, seed, kinds=('exp', 'log', 'sqrt', 'sin', 'cos', 'tan', 'arc', 'sinh', 'cosh', 'tanh', 'recip', 'square', 'neg', 'abs', 'sign', 'erf', 'daw', 'logit', 'expit', 'gamma', 'psi', 'poly', 'hyper', 'pow', 'rpow', 'clip', 'min', 'max'))
    rep.add_bounded('dispatch level: algopy.f / special.f on UTPM vs mpmath', n, d, 'every overloaded elementary/special function called through the public name; each coefficient compared with (1/d!) d^d/dt^d f(x(t)) computed by Faa di Bruno from mpmath high-precision derivatives of f (independent of algopy.nthderiv and of the spec recurrences)', samples, 'D<=5, 4 cells per array, P<=3')
    import random
    from bounded import opchecks
    rng = random.Random(1100 + seed); m = 0; keys = set(); s2 = []
    for name, case, fail in opchecks.complex_pass(rng, tier):
        m += 1; keys.add((name, case['D'], case['P'], str(case['shapes'])))
        if len(s2) < 2: s2.append(case)
        if fail: rep.violation('op:' + name, 'complex', '%s (D=%d,P=%d,shapes=%s): %s' % (case['op'], case['D'], case['P'], case['shapes'], fail), {'kind': 'op', 'case': case, 'failure': fail})
    rep.add_bounded('complex coefficients vs mpmath', m, len(keys), 'the analytic elementary functions (exp .. tanh, reciprocal, square, integer/real powers, r**x) on polynomials with complex coefficients at every order, against the Faa di Bruno composition of mpmath complex derivatives', s2, 'D<=5, P<=2, 3 cells per array')
    m = 0; keys = set(); s3 = []
    for name, case, fail in opchecks.special_points_pass(rng, tier):
        m += 1; keys.add((case['op'], case['D'], case['P']))
        if len(s3) < 2: s3.append(case)
        if fail: rep.violation('op:' + name, 'special-point', '%s (D=%d,P=%d): %s' % (case['op'], case['D'], case['P'], fail), {'kind': 'op', 'case': case, 'failure': fail})
    rep.add_bounded('special base points vs mpmath', m, len(keys), 'every elementary/special function with the zeroth coefficient exactly 0, 1 or -1 (where inside the domain of smoothness) and generic higher coefficients, against the Faa di Bruno composition of mpmath derivatives; a non-finite coefficient is a failure', s3, 'D<=5, P<=3')
    from .opbased import integer_part
    integer_part(rep, 'C01', tier, seed, ('elementwise',))
    rep.assume(*[ASSUME[k] for k in ('A1', 'A3', 'A4', 'A5', 'A6', 'A8', 'A8b', 'A9', 'A10', 'A11', 'CPLX')])
    return rc
