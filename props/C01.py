"""C01 -- elementary functions return the Taylor coefficients of f(x(t))."""
from .common import deductive_part, ASSUME
LEVEL = 'proof'


def run(rep, tier, seed):
    rc, res = deductive_part(rep, 'C01', tier, seed)
    rep.assume(*[ASSUME[k] for k in ('A1', 'A3', 'A4', 'A5', 'A6', 'A8', 'A9', 'A10', 'A11', 'CPLX')])
    return rc
