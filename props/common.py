"""Shared pieces of the per-property checks."""
from lib import deductive
from contracts import registry

def _lean_status():
    import os
    p = os.path.join(os.path.dirname(os.path.dirname(os.path.abspath(__file__))), 'evidence', 'lean_status.txt')
    try: return open(p).read().strip()
    except OSError: return 'lean status unknown on this run (setup.sh not run)'


ASSUME = {
 'A1': 'A1: the coefficient recurrences of contracts/spec.py (Griewank-Walther Tab. 13.1/13.2) are the Taylor coefficients of f(x(t)); audited by audits/spec_vs_sympy.py (sympy series, order <= 6) in the thorough tier',
 'A3': 'A3: NumPy ufuncs / axis-0 reductions act independently per trailing (batch) index; basic indexing returns views; slice semantics as modelled in vc/engine.py (audited on every run by the native stand-in on the same functions)',
 'A4': 'A4: numpy.sum(..., out=v) and a[d] = expr evaluate the right-hand side completely before storing',
 'A5': 'A5: external scalar functions (numpy.exp, scipy.special.*, numpy.linalg.inv/solve, LAPACK factorizations) are the mathematical functions (uninterpreted symbols in the VCs)',
 'A6': 'A6: float64/complex128 arithmetic treated as exact real arithmetic in all proofs; native comparisons use relative tolerance 1e-8',
 'A8': 'A8: Sum lemma schemas (empty, peel-first/last, shift/reversal congruence, zero, split, linearity, negation) are proved in lean/SumLemmas.lean (Lean 4 + Mathlib, checked by setup.sh; status: ' + _lean_status() + '); what remains trusted is that vc/engine.py instantiates exactly these schemas',
 'A8b': 'A8b: causality theorems of the spec functions (coefficient n depends on the input coefficients <= n only) are used, for the composite kernels and composite pullbacks, as instances  (forall i <= n. a[i] = b[i]) -> T(a,n) = T(b,n);  their induction STEP is a discharged lemma obligation of the kernel contracts (listed under C12); the step -> theorem inference is strong induction on n, machine-checked as a schema in lean/SumLemmas.lean (causality_of_step, causality_of_step_pair, causality_of_step\u2082; status: ' + _lean_status() + '); what remains trusted is that each SMT-discharged step lemma is an instance of the schema\'s hypothesis (domain premises such as y[0] != 0 ride along unchanged)',
 'A9': 'A9: the home-made symbolic executor (vc/engine.py) implements the Python/NumPy subset faithfully (operand kinds -- isinstance / numpy.isscalar tests -- are fixed by the contract configuration; arrays of one call have equal coefficient shapes; an array dtype is float, is not object, and any other dtype test is undecided); audited by native execution of every function under contract against the independent spec interpreter, and by the mutation self-test',
 'A10': 'A10: pytpcore is None and algopy is imported from /repo (asserted natively on every run)',
 'A11': 'A11: z3 is sound',
 'CPLX': 'complex coefficients: the VCs are ring/field identities proved over the reals; validity for complex cells rests on the transfer principle (polynomial identities over an infinite field) and on the bounded native runs with complex data',
}


def deductive_part(rep, pid, tier, seed, extra_tasks=()):
    tasks = registry.tasks_for(pid) + list(extra_tasks)
    res = deductive.run_tasks(tasks, tier, seed)
    rc = deductive.feed(rep, res, pid)
    cells = sum(r['native_cells'] for r in res); runs = sum(r['native_runs'] for r in res)
    distinct = len(set((r['function'], r['cfg']) for r in res if r['native_cells'])) * (4 if tier == 'quick' else 7) * 2
    if cells:
        rep.add_bounded('native kernel stand-in', cells, distinct,
                        'every function under contract is executed natively (from /repo) on seeded inputs with non-zero higher coefficients, distinct base points per direction and ~15% sparse columns; every batch cell of every output is compared with the spec interpreter (bounded/specinterp.py); distinct = (function, cfg, D, P/shape) combinations',
                        [{'function': r['function'], 'cfg': r['cfg'], 'cells': r['native_cells']} for r in res[:3]],
                        'D in {1,2,3,5} quick / {1..6,8} thorough; P<=3; coefficient shapes (), (2,), (2,2)')
    rep.trust('z3 4.x/5.x (python3-vt wheel) as SMT back end', 'vc/engine.py symbolic executor (A9)', 'contracts/spec.py recurrences (A1)', 'Sum lemma schemas (A8, Lean-checked)')
    return rc, res
