"""C09 -- forward-mode derivative drivers are exact."""
from .common import deductive_part, ASSUME
from .genbounded import feed
from bounded import more_checks
LEVEL = 'other'


def run(rep, tier, seed):
    rc, res = deductive_part(rep, 'C09', tier, seed)
    feed(rep, more_checks.c09, 9000 + seed, tier, 'forward drivers vs exact derivatives',
         'init_jacobian/init_jac_vec/init_hessian/init_hess_vec/init_tensor(d) + matching extract_* on generated polynomial programs with integer coefficients at integer points (tolerance 1e-12, also with an int-dtype seed) and on smooth corpus programs (1e-9); oracle: sympy derivatives of the same program text; tensors: all distinct d-th order partials divided by the multi-index factorial',
         'N <= 5, tensor order d <= 4, programs <= 5 ops', lambda c: ('fwd-driver:%s' % c.get('driver'), 'N=%s' % c.get('N')))
    feed(rep, more_checks.c09_tensors, 9100 + seed, tier, 'derivative tensors of dense polynomials',
         'init_tensor(d)/extract_tensor for d = 1..5 on fixed integer polynomials whose mixed partial derivatives of every order are non-zero, at integer points, against sympy; all distinct d-th order partials divided by the multi-index factorial',
         'N <= 4, d <= 5', lambda c: ('fwd-driver:%s' % c.get('driver').split('[')[0], 'N=%s' % c.get('N')))
    rep.extra['explanation'] = 'hybrid: index-map obligations (ixvc) where proved + bounded exhaustive comparison with exact derivatives; counted separately'
    rep.assume(ASSUME['A6'], 'sympy differentiation trusted')
    return rc
