"""What MANIFEST.json claims, per property."""
CHECKS = {
 'C01': dict(level='proof', engine='tpvc', design_ref='DESIGN.md 3, 4, 9 (C01)',
   technique='contract-based deductive verification: loop-invariant VCs generated from the real kernel ASTs, discharged by z3; bounded native stand-in for dispatch',
   text='Every coefficient recurrence behind the overloaded elementary functions is verified against the chain-rule spec function for all D>=1, all coefficient values in the domain and (by direction-parametricity) all P and shapes; obligations = discharged on the unchanged tree. The part that cannot be brought under contract (name dispatch, complex dtypes) is a bounded native check, reported separately.',
   note='Trusted: spec recurrences = Taylor coefficients (A1, sympy-audited), NumPy model of the executor (A3/A4/A9, audited natively every run), reals for floats (A6), external scalar functions (A5), Sum lemma schemas (A8, Lean), z3 (A11).'),
}
NOT_APPLICABLE = {p: 'check under construction in this session (see DESIGN.md build order); not yet claimed' for p in
                  ['C02', 'C03', 'C04', 'C05', 'C06', 'C07', 'C08', 'C09', 'C10', 'C11', 'C12', 'C13', 'C14', 'C15', 'C16', 'C17']}
