"""What MANIFEST.json claims, per property."""
CHECKS = {
 'C01': dict(level='proof', engine='tpvc', design_ref='DESIGN.md 3, 4, 9 (C01)',
   technique='contract-based deductive verification: loop-invariant VCs generated from the real kernel ASTs, discharged by z3; bounded native stand-in for dispatch',
   text='Every coefficient recurrence behind the overloaded elementary functions is verified against the chain-rule spec function for all D>=1, all coefficient values in the domain and (by direction-parametricity) all P and shapes; obligations = discharged on the unchanged tree. The part that cannot be brought under contract (name dispatch, complex dtypes) is a bounded native check, reported separately.',
   note='Trusted: spec recurrences = Taylor coefficients (A1, sympy-audited), NumPy model of the executor (A3/A4/A9, audited natively every run), reals for floats (A6), external scalar functions (A5), Sum lemma schemas (A8, Lean), z3 (A11).'),
}
_EXPL = 'Run-time contracts attached to the real functions (installed by the checker, no repository edit), evaluated over a bounded, enumerated+seeded program corpus; labelled bounded, never counted as proved. '
CHECKS.update({
 'C03': dict(level='exploration', engine='bounded', design_ref='DESIGN.md 7.1, 8, 9 (C03), 13',
   technique='structural signature-conformance obligations over the tracer AST + run-time adjoint-identity contract on CGraph.pullback over a bounded program corpus',
   text=_EXPL + 'Adjoint identity <xbar,v> = <ybar,F\'(x)v> mod t^D with F\'(x)v obtained from forward propagation alone (order-shift at degree 2D), random non-symmetric seeds non-zero at all orders, distinct base points per direction. The universally quantified statement over programs is outside what per-call contracts decide; the proved part is the SIG obligations (every recording site has a conforming pullback signature).',
   note='Forward mode is the oracle (C01/C02/C07 contracts + C12). Programs <= 6 ops, D <= 4, P <= 3. A structural SIG candidate is reported only when reproduced natively.'),
 'C04': dict(level='exploration', engine='bounded', design_ref='DESIGN.md 8, 9 (C04)',
   technique='run-time contracts on the eight CGraph drivers, exact sympy derivatives as oracle, bounded program corpus',
   text=_EXPL + 'Every driver is called at a point different from the recording point, for ndarray and UTPM (D=1..3) recordings, and compared with exact derivatives obtained by running the same program text on sympy symbols; jacobian(UTPM) against forward propagation alone.',
   note='sympy differentiation/evaluation trusted; tolerance 1e-9; programs <= 4 ops, N=4.'),
 'C05': dict(level='exploration', engine='bounded', design_ref='DESIGN.md 7.5, 8, 9 (C05), 13',
   technique='run-time record/replay contract (bit-for-bit) + node bookkeeping invariants over a bounded program corpus',
   text=_EXPL + 'Values while recording, node list bookkeeping (one node per executed operation, sequential IDs, operands first, nothing while tracing is off) and re-evaluation on unrelated ndarray/UTPM inputs in shuffled order, all compared bit-for-bit with direct evaluation of the program.',
   note='A property of the tracer object graph and Python dynamic dispatch: no contract within reach of a deductive verifier here (DESIGN 13).'),
 'C06': dict(level='exploration', engine='bounded', design_ref='DESIGN.md 7.2, 7.4, 8, 9 (C06), 13',
   technique='run-time contract: every call of a random call history on one graph must equal the same call on a freshly recorded graph',
   text=_EXPL + 'Histories over forward evaluations (varying point, D, P, kind), several reverse sweeps per forward, driver calls, a second graph recorded/evaluated in between, repetitions. Expected value of each call computed from its arguments alone (fresh graph recorded at another point).',
   note='History length <= 12; whole-history quantifier not decidable by per-call contracts (DESIGN 13). The per-call ingredients (pullbacks do not write forward values) are proved/checked under C14.'),
})
CHECKS.update({
 'C02': dict(level='proof', engine='tpvc', design_ref='DESIGN.md 3, 9 (C02), A.1',
   technique='contract-based deductive verification of the ring kernels (all aliasing configurations) + bounded operator matrix against independent polynomial arithmetic',
   text='_mul, _amul, _truediv, _itruediv, _square, _reciprocal are verified against the ring operations of R[t]/(t^D) for all D and every aliasing configuration used by a call site (out is y, x is y, out is x, out=None). The operator methods on top (operand-kind dispatch, broadcasting, dtype promotion, reflected and in-place forms, powers) are a bounded stand-in: every operand kind x order x broadcast shape pair x real/complex mix against bounded/polyarith.py.',
   note='Exact means exact over the reals (A6). Operator-method layer bounded: D<=4, P<=3, rank<=3.'),
 'C10': dict(level='exploration', engine='bounded', design_ref='DESIGN.md 9 (C10)',
   technique='run-time contracts against NumPy/SciPy as executable specification over the public op table; comparison operators enumerated',
   text='For every public op x argument shapes x (D,P): zeroth coefficient per direction equals the NumPy/SciPy result on the zeroth coefficients, shape/len/size/ndim agree, plain-array calls return exactly the NumPy result; comparisons equal numpy.all(cmp(x0,y0)).',
   note='Table look-up against an executable specification; bounded in shapes (rank<=3) and D,P.'),
 'C11': dict(level='exploration', engine='bounded', design_ref='DESIGN.md 3.1, 7.3, 9 (C11)',
   technique='run-time contract: P-direction result vs each direction evaluated alone (ops and corpus programs, forward and reverse), distinct base points per direction',
   text='Every op of the table and every corpus program (forward value and reverse-sweep adjoint) evaluated on P directions with different zeroth coefficients equals the single-direction evaluations. Direction-parametricity of the kernels is additionally enforced by the tpvc engine (a non-trivial batch subscript makes the kernel leave the verified subset).',
   note='P<=3, D<=6; up to rounding of vectorised kernels (tolerance 1e-10).'),
 'C12': dict(level='proof', engine='tpvc', design_ref='DESIGN.md 9 (C12)',
   technique='contract-based deductive verification: kernel postconditions are stated with spec functions T(x,d) that do not depend on D, proved for symbolic D; bounded D\'<D runs for ops and programs',
   text='Each discharged kernel postcondition forall d<D. y[d] = T(x,d) (T defined by a recursion that reads x[0..d] only) is a proof of degree independence for that kernel. Whole operations, programs and the reverse sweep are checked for all D\'<D<=6 as a bounded stand-in.',
   note='Same trusted base as C01; program-level part bounded.'),
 'C13': dict(level='exploration', engine='bounded', design_ref='DESIGN.md 9 (C13)',
   technique='run-time contracts against NumPy applied slice-wise; numpy.shares_memory agreement and write-through for views; item assignment enumeration',
   text='Indexing (all basic index forms), transpose, reshape, sum over any axis, tile, diag, triu/tril, trace, neg, conjugate, real/imag, fft/ifft, zeros/ones(-like): out.data[d,p] == NumPy op on x.data[d,p]; views share memory exactly as in NumPy and writes through them reach the parent; x[idx] = UTPM/ndarray/scalar equals the NumPy assignment per slice with constants clearing higher coefficients.',
   note='rank<=3, D<=6, P<=3.'),
 'C14': dict(level='proof', engine='tpvc', design_ref='DESIGN.md 3.3, 7.2, 9 (C14)',
   technique='contract-based deductive verification: exact frame (modifies) clauses and aliasing configurations of the kernels; bounded byte-wise frames for public ops and the tracer',
   text='For every kernel under contract the frame obligation (every array parameter not aliased to out is unchanged) is discharged for all D, and each aliasing configuration found at a call site (out is y, x is y, out is x) is verified separately. Public operations, x op x, x op= x, x op= view(x), recording and reverse sweeps are byte-compared before/after as a bounded stand-in.',
   note='Same trusted base as C01.'),
})
NOT_APPLICABLE = {p: 'check under construction in this session (see DESIGN.md build order); not yet claimed' for p in
                  ['C07', 'C08', 'C09', 'C15', 'C16', 'C17']}
