"""What MANIFEST.json claims, per property."""
CHECKS = {
 'C01': dict(level='proof', engine='tpvc', design_ref='DESIGN.md 3, 4, 9 (C01)',
   technique='contract-based deductive verification: loop-invariant VCs generated from the real kernel ASTs, discharged by z3; bounded native stand-in for dispatch',
   text='Every coefficient recurrence behind the overloaded elementary functions is verified against the chain-rule spec function for all D>=1, all coefficient values in the domain and (by direction-parametricity) all P and shapes; obligations = discharged on the unchanged tree. The part that cannot be brought under contract (name dispatch, complex dtypes) is a bounded native check, reported separately.',
   note='Trusted: spec recurrences = Taylor coefficients (A1, sympy-audited), NumPy model of the executor (A3/A4/A9, audited natively every run), reals for floats (A6), external scalar functions (A5), Sum lemma schemas (A8, Lean), z3 (A11).'),
}
_EXPL = 'Run-time contracts attached to the real functions (installed by the checker, no repository edit), evaluated over a bounded, enumerated+seeded program corpus; labelled bounded, never counted as proved. '
CHECKS.update({
 'C03': dict(level='exploration', engine='bounded', design_ref='DESIGN.md 7.1, 8, 9 (C03), 13',
   technique='structural signature-conformance obligations over the tracer AST + run-time adjoint-identity contract on CGraph.pullback over a bounded program corpus',
   text=_EXPL + 'Adjoint identity <xbar,v> = <ybar,F\'(x)v> mod t^D with F\'(x)v obtained from forward propagation alone (order-shift at degree 2D), random non-symmetric seeds non-zero at all orders, distinct base points per direction. The universally quantified statement over programs is outside what per-call contracts decide; the proved part is the SIG obligations (every recording site has a conforming pullback signature).',
   note='Forward mode is the oracle (C01/C02/C07 contracts + C12). Programs <= 6 ops, D <= 4, P <= 3. A structural SIG candidate is reported only when reproduced natively.'),
 'C04': dict(level='exploration', engine='bounded', design_ref='DESIGN.md 8, 9 (C04)',
   technique='run-time contracts on the eight CGraph drivers, exact sympy derivatives as oracle, bounded program corpus',
   text=_EXPL + 'Every driver is called at a point different from the recording point, for ndarray and UTPM (D=1..3) recordings, and compared with exact derivatives obtained by running the same program text on sympy symbols; jacobian(UTPM) against forward propagation alone.',
   note='sympy differentiation/evaluation trusted; tolerance 1e-9; programs <= 4 ops, N=4.'),
 'C05': dict(level='exploration', engine='bounded', design_ref='DESIGN.md 7.5, 8, 9 (C05), 13',
   technique='run-time record/replay contract (bit-for-bit) + node bookkeeping invariants over a bounded program corpus',
   text=_EXPL + 'Values while recording, node list bookkeeping (one node per executed operation, sequential IDs, operands first, nothing while tracing is off) and re-evaluation on unrelated ndarray/UTPM inputs in shuffled order, all compared bit-for-bit with direct evaluation of the program.',
   note='A property of the tracer object graph and Python dynamic dispatch: no contract within reach of a deductive verifier here (DESIGN 13).'),
 'C06': dict(level='exploration', engine='bounded', design_ref='DESIGN.md 7.2, 7.4, 8, 9 (C06), 13',
   technique='run-time contract: every call of a random call history on one graph must equal the same call on a freshly recorded graph',
   text=_EXPL + 'Histories over forward evaluations (varying point, D, P, kind), several reverse sweeps per forward, driver calls, a second graph recorded/evaluated in between, repetitions. Expected value of each call computed from its arguments alone (fresh graph recorded at another point).',
   note='History length <= 12; whole-history quantifier not decidable by per-call contracts (DESIGN 13). The per-call ingredients (pullbacks do not write forward values) are proved/checked under C14.'),
})
NOT_APPLICABLE = {p: 'check under construction in this session (see DESIGN.md build order); not yet claimed' for p in
                  ['C02', 'C07', 'C08', 'C09', 'C10', 'C11', 'C12', 'C13', 'C14', 'C15', 'C16', 'C17']}
