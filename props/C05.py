"""C05 -- replaying a recorded graph reproduces the program (bounded: run-time record/replay contract on the corpus)."""
import random
from bounded import progs, tracer_checks as T
LEVEL = 'exploration'


def run(rep, tier, seed):
    rng = random.Random(2000 + seed)
    ps = progs.single_op_programs(4) + progs.random_programs(40 if tier == 'quick' else 600, rng, N=4, maxlen=5 if tier == 'quick' else 7)
    total = 0; distinct = 0; skipped = {}; samples = []
    for p in ps:
        fails, n, skip = T.replay_contract(p, rng)
        if skip: skipped[skip] = skipped.get(skip, 0) + 1; continue
        total += n; distinct += 1
        if len(samples) < 3: samples.append({'program': p.describe(), 'comparisons': n})
        for f in fails[:1]:
            rep.violation('replay:' + (p.name if not p.name.startswith('rand') else 'program'), f['what'][:60],
                          'program %s: %s' % (p.describe()['stmts'], f['what']), {'kind': 'replay', 'program': p.describe(), **f})
    rep.add_bounded('record/replay contract', total, distinct,
                    'every program is recorded on an ndarray and on a UTPM (D=2,P=1); values while recording == program on unwrapped operands (bit-for-bit); node list: one node per executed operation, IDs sequential, operands before users, nothing appended while tracing is off; re-evaluation on fresh ndarray / UTPM inputs of (D,P) in {(1,1),(3,2),(2,3)} in shuffled order == direct evaluation (bit-for-bit). distinct = programs that could be recorded',
                    samples, 'programs <= %d ops over %d op variants, N=4, D<=3, P<=3' % (5 if tier == 'quick' else 7, len(progs.OPS)))
    rep.extra['not_recordable'] = skipped
    rep.extra['explanation'] = 'property about the tracer object graph and Python dynamic dispatch: no contract within reach of a deductive verifier (DESIGN 13); decided by run-time contracts on the real functions, bounded'
    rep.assume('bit-for-bit equality is the right oracle because replay performs the same NumPy calls in the same order')
    return 0
