"""helper: run a bounded generator `gen(rng, tier)` yielding (case, failure|None) and feed the report"""
import random


def feed(rep, gen, seed, tier, name, rule, bound, site_of, key_of=None):
    rng = random.Random(seed)
    n = 0; keys = set(); samples = []
    for case, fail in gen(rng, tier):
        n += 1
        k = key_of(case) if key_of else str(sorted((a, str(b)) for a, b in case.items() if a not in ('x', 'v', 'program', 'inputs')))
        keys.add(k)
        if len(samples) < 3 and n % 37 == 1: samples.append({a: b for a, b in case.items() if a not in ('inputs',)})
        if fail:
            site, klass = site_of(case)
            rep.violation(site, klass, '%s: %s' % ({a: b for a, b in case.items() if a not in ('program', 'inputs')}, fail), {'kind': name, 'case': case, 'failure': str(fail)})
    rep.add_bounded(name, n, len(keys), rule, samples or [{'note': 'no sample'}], bound)
    return n
