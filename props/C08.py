"""C08 -- matrix factorizations satisfy their defining equations modulo t^D (bounded: residual run-time contracts)."""
from .genbounded import feed
from bounded import linalg_checks
LEVEL = 'exploration'


def run(rep, tier, seed):
    feed(rep, linalg_checks.c08_all, 8000 + seed, tier, 'factorization residual contracts',
         'qr (square, tall, wide), qr_full, cholesky, lu (with and without row pivoting), eigh (distinct and exactly repeated eigenvalues of A_0 with splitting at order 1), eig (D<=2), svd: defining equations as polynomial identities mod t^D with products formed by bounded/polyarith.py, triangular/orthogonality structure, ordering, zeroth coefficient equal to the NumPy/SciPy factorization; different base matrices per direction, higher coefficients dense random, linear-only (A_0 + t A_1 with all higher orders exactly zero), with a gap (A_1 = 0) and constant',
         'sizes <= 4, D <= 6, P <= 2', lambda c: ('factorization:%s' % c['fn'], str(c.get('shape', c.get('n', ''))) + str(c.get('eigenvalues', '')) + str(c.get('pivot', ''))))
    feed(rep, linalg_checks.c08_scaled, 8100 + seed, tier, 'scale covariance of the factors',
         'qr, qr_full, cholesky, lu of s*A for s in {1e-9, 1e-11, 1e6} against the scaled factors of A (relative comparison): regularity (full column rank, positive definiteness, non-singularity) does not depend on the scale, so an absolute rank / pivot threshold inside a kernel shows here',
         'sizes <= 4, D <= 4, P <= 2', lambda c: ('factorization:%s' % c['fn'], str(c.get('shape', c.get('n', ''))) + ' s=%g' % c['scale']))
    rep.extra['explanation'] = 'the kernels interleave LAPACK calls, Hadamard masks and data-dependent block bookkeeping; no contract within reach of the SMT back end expresses triangular-matrix algebra or eigen-perturbation theory (DESIGN 9, C08): bounded residual contracts on the real functions instead'
    rep.assume('base-point factorizations are LAPACK/SciPy (A5)', 'tolerance 1e-8 relative')
    return 0
