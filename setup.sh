#!/bin/sh
# offline setup: verify tools, create output directories, machine-check the Sum lemma schemas (Lean) when possible
cd "$(dirname "$0")" || exit 1
mkdir -p evidence replays
/opt/veriftools/pyvenv/bin/python - <<'PY' || exit 1
import z3, numpy, scipy, sympy, jsonschema
print('z3', z3.get_version_string(), 'numpy', numpy.__version__, 'scipy', scipy.__version__, 'sympy', sympy.__version__)
PY
if [ -f lean/SumLemmas.lean ] && command -v lean >/dev/null 2>&1; then
  ( cd lean && timeout 900 lean SumLemmas.lean > ../evidence/lean_sumlemmas.log 2>&1 && echo "lean: SumLemmas.lean checked" > ../evidence/lean_status.txt || echo "lean: SumLemmas.lean NOT checked (see evidence/lean_sumlemmas.log)" > ../evidence/lean_status.txt )
  cat evidence/lean_status.txt
fi
exit 0
