"""Run-time contracts on the tracer / reverse mode (DESIGN 8.2), evaluated over the program corpus.
Everything here calls the REAL algopy from /repo; the oracles are (i) forward propagation alone (order-shift trick),
(ii) direct evaluation of the program on plain ndarrays, (iii) sympy's exact derivatives for polynomial programs."""
import numpy, copy
from lib import native
from . import progs


def A(): return native.algopy()


def make_utpm(N, D, P, rng, distinct_base=True, x0=None):
    a = A()
    data = numpy.zeros((D, P, N))
    for p in range(P):
        for n in range(N):
            data[0, p, n] = (x0[n] if x0 is not None and not distinct_base else native.rnd(rng, 0.25, 1.0)) if (distinct_base or x0 is None) else x0[n]
            for d in range(1, D): data[d, p, n] = native.rnd(rng, -1.0, 1.0, 8)
    if x0 is not None and not distinct_base: data[0, :, :] = numpy.asarray(x0)
    return a.UTPM(data)


def rand_like(u, rng, pattern='dense', cplx=False):
    """random polynomial of the shape of u.  pattern: dense | zero0 (order-0 coefficient zero) | last (only the highest order non-zero) | only0"""
    a = A(); d = u.data
    out = numpy.array([native.rnd(rng, -1.0, 1.0, 8) for _ in range(d.size)]).reshape(d.shape)
    out[out == 0] = 0.125
    if cplx or numpy.iscomplexobj(d): out = out + 1j * numpy.array([native.rnd(rng, -1.0, 1.0, 8) for _ in range(d.size)]).reshape(d.shape)
    if pattern == 'zero0' and d.shape[0] > 1: out[0] = 0
    elif pattern == 'last' and d.shape[0] > 1: out[:-1] = 0
    elif pattern == 'only0': out[1:] = 0
    return a.UTPM(out)


def pairing(a, b):
    """<a(t), b(t)> mod t^D per direction: array (D, P)"""
    da, db = a.data, b.data; D, P = da.shape[:2]
    out = numpy.zeros((D, P), dtype=numpy.result_type(da, db))
    for d in range(D):
        for k in range(d + 1):
            out[d] += (da[k] * db[d - k]).reshape(P, -1).sum(axis=1)
    return out


def record(prog, xrec):
    """trace prog on xrec (ndarray or UTPM); returns (cg, fx, fy)"""
    a = A()
    cg = a.CGraph()
    fx = a.Function(xrec)
    fy = prog.run(progs.NS(a), fx)
    cg.trace_off()
    cg.independentFunctionList = [fx]; cg.dependentFunctionList = [fy]
    return cg, fx, fy


def forward_tangent(prog, x, v):
    """F'(x(t)) v(t) mod t^D from forward propagation alone: evaluate at degree 2D on x + t^D v and on x;
    coefficients D..2D-1 of the difference (exact over the reals)."""
    a = A(); D, P = x.data.shape[:2]
    big = numpy.zeros((2 * D,) + x.data.shape[1:]); big[:D] = x.data
    y0 = prog.run(progs.NS(a), a.UTPM(big.copy()))
    big[D:] = v.data
    y1 = prog.run(progs.NS(a), a.UTPM(big))
    return a.UTPM((y1.data - y0.data)[D:].copy()), a.UTPM(y0.data[:D].copy())


LAST_MAGNITUDE = 0.0
def adjoint_identity(prog, x, ybar_seed_rng, v, cg=None, fx=None, fy=None, pattern='dense'):
    """returns (max abs defect of <xbar,v> - <ybar,F'(x)v>, scale, xbar, ybar) using the recorded graph cg"""
    a = A()
    if cg is None: cg, fx, fy = record(prog, x)
    cg.pushforward([x])
    y = cg.dependentFunctionList[0].x
    global LAST_MAGNITUDE
    LAST_MAGNITUDE = 0.0
    for f_ in cg.functionList:
        d_ = getattr(getattr(f_, 'x', None), 'data', None)
        if d_ is not None and numpy.size(d_): LAST_MAGNITUDE = max(LAST_MAGNITUDE, float(numpy.nanmax(numpy.abs(d_))))
    ybar = rand_like(y, ybar_seed_rng, pattern)
    ybar_copy = ybar.data.copy()
    cg.pullback([ybar])
    xbar = cg.independentFunctionList[0].xbar
    Fv, y_fwd = forward_tangent(prog, x, v)
    lhs = pairing(xbar, v); rhs = pairing(a.UTPM(ybar_copy), Fv)
    scale = max(1.0, numpy.abs(lhs).max(), numpy.abs(rhs).max())
    return numpy.abs(lhs - rhs).max(), scale, xbar, ybar_copy, (lhs, rhs), numpy.array_equal(ybar.data, ybar_copy)


# ------------------------------------------------------------------------------------------------------------------
def classify_record_failure(e):
    return 'record-raises:%s' % type(e).__name__


def run_adjoint_corpus(programs, configs, rng, tol=1e-8, patterns=('dense',)):
    """for every program and (D,P): record on a UTPM, forward, reverse with a random non-symmetric seed that is non-zero at
    all orders, and compare with forward propagation alone.  returns list of outcome dicts."""
    out = []
    for p in programs:
      for pattern in patterns:
        for (D, P) in configs:
            if pattern != 'dense' and D == 1: continue
            N = p.N
            x = make_utpm(N, D, P, rng); v = rand_like(x, rng)
            if pattern == 'special-point':          # base point at a stationary / special value of many ops (0 and 1), higher coefficients generic
                x.data[0] = numpy.array([0.0, 1.0, 0.0, 1.0][:N])[None, :]
            o = {'program': p.name, 'D': D, 'P': P, 'status': 'ok', 'detail': '', 'desc': p.describe(), 'x': x.data.tolist(), 'v': v.data.tolist(), 'seed_pattern': pattern}
            try:
                cg, fx, fy = record(p, x)
            except Exception as e:
                o['status'] = 'record-raises'; o['detail'] = '%s: %s' % (type(e).__name__, str(e).strip().splitlines()[-1][:160] if str(e).strip() else ''); out.append(o); continue
            try:
                err, scale, xbar, ybar, lr, seed_ok = adjoint_identity(p, x, rng, v, cg, fx, fy, pattern if pattern != 'special-point' else 'dense')
                if not numpy.isfinite(err): continue
                if LAST_MAGNITUDE > 1e6:
                    # intermediate values beyond 1e6 (e.g. ((sum x)^2)^4 fed into sin): float64 evaluation of the oracle itself is ill-conditioned
                    # (assumption A6 "floats as reals" does not hold there); not a verdict
                    o['status'] = 'ill-conditioned'; o['detail'] = 'max |intermediate| = %.3g' % LAST_MAGNITUDE; out.append(o); continue
            except Exception as e:
                msg = str(e)
                missing = ("has no attribute 'pb_" in msg)
                o['status'] = 'no-pullback' if missing else 'sweep-raises'
                o['detail'] = [l for l in msg.strip().splitlines() if l.strip()][-1][:200] if msg.strip() else type(e).__name__
                out.append(o); continue
            o['ybar'] = ybar.tolist(); o['err'] = float(err); o['scale'] = float(scale)
            if pattern == 'dense' and seed_ok and err <= tol * scale:
                # memory layout must not matter: the same input and seed handed over as NON-CONTIGUOUS arrays give the same adjoint
                try:
                    a_ = A(); big = numpy.zeros((D, 2 * P) + x.data.shape[2:]); xv = a_.UTPM(big[:, ::2]); xv.data[...] = x.data
                    cg.pushforward([xv]); bigy = numpy.zeros((ybar.shape[0], 2 * ybar.shape[1]) + ybar.shape[2:], dtype=ybar.dtype); yv = a_.UTPM(bigy[:, ::2]); yv.data[...] = ybar
                    cg.pullback([yv]); xb2 = cg.independentFunctionList[0].xbar.data
                    if xb2.shape != xbar.data.shape or not numpy.allclose(xb2, xbar.data, rtol=1e-12, atol=1e-12 * max(1.0, float(numpy.abs(xbar.data).max()))):
                        o['status'] = 'mismatch'; o['detail'] = 'adjoint depends on the memory layout of input / seed (non-contiguous arrays vs contiguous copies): max diff %.3g' % float(numpy.abs(xb2 - xbar.data).max() if xb2.shape == xbar.data.shape else float('nan'))
                except Exception as e:
                    o['status'] = 'sweep-raises'; o['detail'] = 'with non-contiguous input/seed: %s: %s' % (type(e).__name__, str(e).strip().splitlines()[-1][:160] if str(e).strip() else '')
            if not seed_ok: o['status'] = 'seed-modified'
            elif not (err <= tol * scale): o['status'] = 'mismatch'; o['detail'] = 'max |<xbar,v> - <ybar,F\'(x)v>| = %.3g (scale %.3g); lhs=%s rhs=%s' % (err, scale, numpy.round(lr[0], 6).tolist(), numpy.round(lr[1], 6).tolist())
            out.append(o)
    return out


# ------------------------------------------------------------------------------------------------------------------
# C05: record / replay equivalence
def same(u, w, exact=True, tol=1e-12):
    a = A()
    if isinstance(u, a.UTPM) != isinstance(w, a.UTPM): return False
    du = u.data if isinstance(u, a.UTPM) else numpy.asarray(u); dw = w.data if isinstance(w, a.UTPM) else numpy.asarray(w)
    if du.shape != dw.shape: return False
    if exact: return bool(numpy.array_equal(du, dw, equal_nan=True))
    return bool(numpy.allclose(du, dw, rtol=tol, atol=tol, equal_nan=True))


def replay_contract(prog, rng, rec_kinds=('ndarray', 'utpm'), replays=None):
    """returns list of failures (dict) and number of comparisons"""
    a = A(); ns = progs.NS(a); N = prog.N; fails = []; n = 0
    replays = replays or [('ndarray', None), ('utpm', (1, 1)), ('utpm', (3, 2)), ('utpm', (2, 3)), ('ndarray', None), ('utpm', (3, 2)), ('utpm', (3, 2))]
    for rk in rec_kinds:
        xr = numpy.array([native.rnd(rng, 0.25, 1.0) for _ in range(N)]) if rk == 'ndarray' else make_utpm(N, 2, 1, rng)
        created = [0]
        orig_create = a.Function.__dict__['create'].__func__
        def counting(cls, *args, **kw):
            created[0] += 1; return orig_create(cls, *args, **kw)
        a.Function.create = classmethod(counting)
        try:
            try: cg, fx, fy = record(prog, xr)
            finally: a.Function.create = classmethod(orig_create)
        except Exception as e:
            return [], 0, 'record-raises: %s' % type(e).__name__
        direct = prog.run(ns, xr); n += 1
        if not same(fy.x, direct): fails.append({'what': 'value while recording differs from the program on the unwrapped operand', 'record_kind': rk, 'x': _ser(xr)})
        # bookkeeping: one node per executed operation, sequential IDs, operands before users
        if len(cg.functionList) != created[0]: fails.append({'what': 'nodes recorded %d != operations executed %d' % (len(cg.functionList), created[0]), 'record_kind': rk})
        for i, f in enumerate(cg.functionList):
            if f.ID != i: fails.append({'what': 'node %d has ID %s' % (i, f.ID), 'record_kind': rk}); break
            for arg in f.args:
                if isinstance(arg, a.Function) and arg is not f and not (arg.ID < f.ID): fails.append({'what': 'operand recorded after its user at node %d' % i, 'record_kind': rk}); break
        n += 1
        nlist = len(cg.functionList)
        # nothing is recorded while recording is off
        prog.run(ns, a.Function(xr)); n += 1
        if len(cg.functionList) != nlist: fails.append({'what': 'nodes appended while tracing is off', 'record_kind': rk})
        order = list(replays); rng.shuffle(order); held = []
        for (uk, dp) in order:
            u = numpy.array([native.rnd(rng, 0.25, 1.0) for _ in range(N)]) if uk == 'ndarray' else make_utpm(N, dp[0], dp[1], rng)
            try: want = prog.run(ns, u)
            except Exception: continue            # the program itself cannot run on this operand kind (forward-mode matter, not the tracer's)
            try: got = cg.function([u])[0]
            except Exception as e:
                fails.append({'what': 'replay raises %s but direct evaluation succeeds' % type(e).__name__, 'record_kind': rk, 'replay_kind': uk, 'DP': dp, 'u': _ser(u)}); continue
            n += 1
            if not same(got, want): fails.append({'what': 'replay differs from direct evaluation', 'record_kind': rk, 'replay_kind': uk, 'DP': dp, 'u': _ser(u), 'got': _ser(got), 'want': _ser(want)})
            else: held.append((got, want, u, (u.data.copy() if isinstance(u, a.UTPM) else numpy.array(u, copy=True)), uk, dp))
        # what earlier replays handed out (and were given) still holds after the later ones: a replay must not write into the result objects
        # or argument arrays of another replay (several replays share D, P and dtype)
        for k_, (got, want, u, ucopy, uk, dp) in enumerate(held):
            n += 1
            if not same(got, want): fails.append({'what': 'the result of replay %d, looked at after the later replays, no longer equals the direct evaluation (a later replay wrote into it)' % k_, 'record_kind': rk, 'replay_kind': uk, 'DP': dp}); break
            if not numpy.array_equal(u.data if isinstance(u, a.UTPM) else u, ucopy): fails.append({'what': 'the argument of replay %d was modified by a later replay' % k_, 'record_kind': rk, 'replay_kind': uk, 'DP': dp}); break
    # a second, already closed graph is re-evaluated (on plain values) in the middle of this recording: the recording must go on in
    # ITS graph, the helper graph must not grow, and replays must still equal direct evaluation
    try:
        helper = progs.Program(N, [(1, 'sin', (0,), {}), (2, 'mul', (1, 0), {})], 'helper')
        cgA, _, _ = record(helper, numpy.array([native.rnd(rng, 0.25, 1.0) for _ in range(N)])); nA = len(cgA.functionList)
        xr = numpy.array([native.rnd(rng, 0.25, 1.0) for _ in range(N)])
        cg0, _, _ = record(prog, xr); n_plain = len(cg0.functionList)
        cgB = a.CGraph(); fxB = a.Function(xr)
        cgA.function([numpy.array([native.rnd(rng, 0.25, 1.0) for _ in range(N)])])
        fyB = prog.run(ns, fxB); cgB.trace_off(); cgB.independentFunctionList = [fxB]; cgB.dependentFunctionList = [fyB]
        n += 1
        if len(cgA.functionList) != nA: fails.append({'what': 'a closed graph grew from %d to %d nodes when it was re-evaluated during another recording' % (nA, len(cgA.functionList)), 'record_kind': 'nested'})
        elif len(cgB.functionList) != n_plain: fails.append({'what': 'recording interrupted by the re-evaluation of another graph has %d nodes, uninterrupted %d' % (len(cgB.functionList), n_plain), 'record_kind': 'nested'})
        else:
            for (uk, dp) in (('ndarray', None), ('utpm', (2, 2))):
                u = numpy.array([native.rnd(rng, 0.25, 1.0) for _ in range(N)]) if uk == 'ndarray' else make_utpm(N, dp[0], dp[1], rng)
                try: want = prog.run(ns, u)
                except Exception: continue
                got = cgB.function([u])[0]; n += 1
                if not same(got, want): fails.append({'what': 'replay of a recording that was interrupted by the re-evaluation of another graph differs from direct evaluation', 'record_kind': 'nested', 'replay_kind': uk, 'u': _ser(u), 'got': _ser(got), 'want': _ser(want)}); break
    except Exception as e:
        fails.append({'what': 'nested-graph scenario raises %s: %s' % (type(e).__name__, str(e)[:100]), 'record_kind': 'nested'})
    return fails, n, None


def _ser(u):
    a = A()
    if isinstance(u, a.UTPM): return {'utpm': u.data.tolist()}
    return numpy.asarray(u).tolist()


# ------------------------------------------------------------------------------------------------------------------
# C04: drivers against exact derivatives
_sym_cache = {}
def sym_derivs(prog):
    """sympy expressions of F (flattened), Jacobian and per-output Hessians of prog; lambdified"""
    import sympy as sp
    k = prog.key()
    if k in _sym_cache: return _sym_cache[k]
    xs = sp.symbols('x0:%d' % prog.N, real=True); X = numpy.array(xs, dtype=object)
    y = prog.run(progs.SymNS(), X)
    ys = [sp.sympify(e) for e in numpy.ravel(numpy.asarray(y, dtype=object))]
    J = [[sp.diff(e, v) for v in xs] for e in ys]
    H = [[[sp.diff(J[m][i], xs[j]) for j in range(prog.N)] for i in range(prog.N)] for m in range(len(ys))]
    f = sp.lambdify(xs, ys, 'mpmath'); fJ = sp.lambdify(xs, J, 'mpmath'); fH = sp.lambdify(xs, H, 'mpmath')
    _sym_cache[k] = (f, fJ, fH, len(ys)); return _sym_cache[k]


def exact(prog, x):
    f, fJ, fH, M = sym_derivs(prog)
    xs = [float(v) for v in x]
    F = numpy.array([float(v) for v in f(*xs)]); J = numpy.array([[float(v) for v in r] for r in fJ(*xs)])
    H = numpy.array([[[float(v) for v in r] for r in m] for m in fH(*xs)])
    return F, J, H


def driver_contract(prog_scalar, prog_vector, rng, rec_kinds=('ndarray', 'utpm2', 'utpm3'), tol=1e-9, int_point=False):
    """all eight drivers at a point different from the recording point, for every recording kind.  returns (failures, n)"""
    a = A(); fails = []; n = 0
    for rk in rec_kinds:
        for (prog, scalar) in ((prog_scalar, True), (prog_vector, False)):
            N = prog.N
            xr = numpy.array([native.rnd(rng, 0.25, 1.0) for _ in range(N)]) if rk == 'ndarray' else make_utpm(N, int(rk[-1]), 1, rng)
            try: cg, fx, fy = record(prog, xr)
            except Exception as e: return [], 0, 'record-raises: %s' % type(e).__name__
            x = numpy.array([native.rnd(rng, 0.25, 1.0) for _ in range(N)]); v = numpy.array([native.rnd(rng, -1, 1, 8) for _ in range(N)])
            if int_point: x = numpy.array([rng.choice([1, 2, 3]) for _ in range(N)])          # an integer-TYPED evaluation point (non-integer directions)
            F, J, H = exact(prog, x.astype(float)); M = len(F)
            w = numpy.array([native.rnd(rng, -1, 1, 8) for _ in range(M)])
            def cmp(name, got, want):
                nonlocal n; n += 1
                got = numpy.asarray(got, dtype=float); want = numpy.asarray(want, dtype=float)
                if got.shape != want.shape or not numpy.allclose(got, want, rtol=tol, atol=tol * max(1.0, numpy.abs(want).max() if want.size else 1.0)):
                    fails.append({'driver': name, 'record_kind': rk, 'program': prog.describe(), 'x_record': _ser(xr), 'x': x.tolist(), 'x_dtype': str(x.dtype), 'v': v.tolist(), 'w': w.tolist(),
                                  'got': got.tolist(), 'want': want.tolist()})
            try:
                if scalar:
                    cmp('gradient', cg.gradient(x), J[0])
                    cmp('hessian', cg.hessian(x), H[0])
                    cmp('hess_vec', cg.hess_vec(x, v), H[0].dot(v))
                    cmp('gradient(list)', cg.gradient([x])[0], J[0])
                else:
                    cmp('jacobian', cg.jacobian(x), J)
                    cmp('jac_vec', cg.jac_vec(x, v), J.dot(v))
                    cmp('vec_jac', cg.vec_jac(w, x), w.dot(J))
                    cmp('vec_hess', cg.vec_hess(w, x), numpy.einsum('m,mij->ij', w, H))
                    if M == N: cmp('vec_hess_vec', cg.vec_hess_vec(w, x, v), numpy.einsum('m,mij,j->i', w, H, v))
                    # Taylor expansion of the Jacobian along a curve: column j = F'(x(t)) e_j from forward propagation alone
                    xt = make_utpm(N, 3, 2, rng)
                    Jt = cg.jacobian(xt)
                    want = numpy.zeros((3, 2, M, N))
                    for j in range(N):
                        e = a.UTPM(numpy.zeros_like(xt.data)); e.data[0, :, j] = 1.
                        Fv, _ = forward_tangent(prog, xt, e); want[:, :, :, j] = Fv.data.reshape(3, 2, M)
                    cmp('jacobian(UTPM)', Jt.data, want)
            except Exception as e:
                fails.append({'driver': 'raises', 'record_kind': rk, 'program': prog.describe(), 'error': '%s: %s' % (type(e).__name__, [l for l in str(e).splitlines() if l.strip()][-1][:200] if str(e).strip() else '')})
    return fails, n, None


# ------------------------------------------------------------------------------------------------------------------
# C06: histories
SCENARIOS = [
    ['fwd', 'rev', 'rev', 'rev'],                                   # the documented pattern: several sweeps after one forward evaluation
    ['fwd', 'rev', 'fwd_c', 'rev', 'fwd_same_DP', 'rev'],           # real -> complex -> real with identical (D,P)
    ['fwd_c', 'rev', 'fwd_same_DP', 'rev'],
    ['fwd', 'rev', 'fwd', 'rev', 'fwd_same_DP', 'rev', 'rev'],      # changing (D,P), then repeating it
    ['driver', 'fwd', 'rev', 'driver', 'rev_skip'],
    ['fwd_nd', 'fwd', 'rev', 'second_graph', 'rev', 'fwd_nd', 'fwd_same_DP', 'rev'],
    ['fwd', 'second_graph', 'rev', 'repeat', 'repeat'],
    ['fwd', 'fwd_mut', 'rev', 'fwd_mut', 'rev'],                    # the caller updates its polynomial in place and passes the same object again
    ['driver', 'driver_mut', 'driver_mut', 'fwd', 'fwd_mut'],       # x -= step * g; gradient(x) again (optimisation loop)
]


def history_contract(prog, rng, length, tol=1e-12, script=None):
    """a random history of calls on ONE recorded graph; every call's result is compared with the same call on a freshly
    recorded graph (so the expected value is a function of the call's arguments only).  returns (failures, n_calls, trace)"""
    a = A(); N = prog.N; fails = []; trace = []
    prog = progs.scalarize(prog) if rng.random() < 0.5 else progs.vectorize(prog)
    xr = numpy.array([native.rnd(rng, 0.25, 1.0) for _ in range(N)])
    cg, fx, fy = record(prog, xr)
    sc = prog.out_shape() == ()
    last_fwd = None; n = 0
    other = progs.Program(N, [(1, 'sin', (0,), {}), (2, 'mul', (1, 0), {})], 'other')
    kinds = ['fwd', 'rev', 'rev', 'driver', 'fwd_nd', 'second_graph', 'repeat', 'fwd_c', 'fwd_same_DP', 'fwd_mut', 'driver_mut']
    prev = None; last_x = None
    for step in range(length if script is None else len(script)):
        k = rng.choice(kinds) if script is None else script[step]
        if k == 'rev_skip': continue
        if k == 'rev' and last_fwd is None: k = 'fwd'
        if k == 'repeat' and prev is None: k = 'fwd'
        if k == 'repeat': k, args = prev
        elif k == 'fwd': args = (make_utpm(N, rng.choice([1, 2, 3]), rng.choice([1, 2]), rng),)
        elif k == 'fwd_c':          # complex coefficients, same (D,P) as the previous forward evaluation if there was one
            D_, P_ = (last_fwd.data.shape[:2] if last_fwd is not None else (2, 1))
            u = make_utpm(N, D_, P_, rng); args = (a.UTPM(u.data + 1j * rand_like(u, rng).data * 0.25),); k = 'fwd'
        elif k == 'fwd_same_DP':
            D_, P_ = (last_fwd.data.shape[:2] if last_fwd is not None else (2, 1))
            args = (make_utpm(N, D_, P_, rng),); k = 'fwd' 
        elif k == 'fwd_mut' and last_fwd is not None and not numpy.iscomplexobj(last_fwd.data):
            # the caller updates the polynomial it passed before IN PLACE and passes the same object again (an optimisation loop does that)
            last_fwd.data[...] = last_fwd.data * 0.75 + 0.125; args = (last_fwd,); k = 'fwd'
        elif k == 'fwd_mut': args = (make_utpm(N, rng.choice([1, 2, 3]), rng.choice([1, 2]), rng),); k = 'fwd'
        elif k == 'fwd_nd': args = (numpy.array([native.rnd(rng, 0.25, 1.0) for _ in range(N)]),)
        elif k == 'rev': args = (rng.random(),)
        elif k in ('driver', 'driver_mut'):
            if k == 'driver_mut' and last_x is not None: x = last_x; x *= 0.75; x += 0.125          # same array object, updated in place (x -= step * g)
            else: x = numpy.array([native.rnd(rng, 0.25, 1.0) for _ in range(N)])
            v = numpy.array([native.rnd(rng, -1, 1, 8) for _ in range(N)]); last_x = x; k = 'driver'
            args = (rng.choice(['gradient', 'hessian', 'hess_vec'] if sc else ['jacobian', 'jac_vec', 'vec_jac']), x, v)
        else: args = ()
        prev = (k, args)
        def do(g, fresh):
            nonlocal last_fwd
            if k in ('fwd', 'fwd_nd'):
                r = g.function([args[0]])[0]
                return r
            if k == 'rev':
                if fresh: g.pushforward([last_fwd])
                y = g.dependentFunctionList[0].x
                srng = __import__('random').Random(args[0]); ybar = rand_like(y, srng)
                g.pullback([ybar]); return g.independentFunctionList[0].xbar
            if k == 'driver':
                name, x, v = args
                if name in ('gradient', 'hessian', 'jacobian'): return getattr(g, name)(x)
                if name in ('hess_vec', 'jac_vec'): return getattr(g, name)(x, v)
                M = g.dependentFunctionList[0].size
                return g.vec_jac(numpy.arange(1., M + 1), x)
            if k == 'second_graph':
                g2, _, _ = record(other, xr * 0.5); g2.function([make_utpm(N, 2, 2, __import__('random').Random(5))]); return None
        try:
            try: got = do(cg, False)
            except Exception as e1:
                # a call that cannot be answered at all is history-independent if it also fails on a fresh graph
                cgf, _, _ = record(prog, numpy.array([native.rnd(rng, 0.25, 1.0) for _ in range(N)]))
                try: do(cgf, True)
                except Exception: trace.append(k + '(raises consistently)'); last_fwd = None; continue
                raise e1
            if k == 'second_graph': trace.append(k); continue
            if k == 'driver': last_fwd = None
            cgf, _, _ = record(prog, numpy.array([native.rnd(rng, 0.25, 1.0) for _ in range(N)]))
            want = do(cgf, True)
            if k == 'fwd': last_fwd = args[0]
            if k == 'fwd_nd': last_fwd = None
        except Exception as e:
            fails.append({'step': step, 'call': k, 'error': '%s: %s' % (type(e).__name__, [l for l in str(e).splitlines() if l.strip()][-1][:200] if str(e).strip() else ''), 'trace': list(trace)}); break
        n += 1; trace.append(k if k != 'driver' else 'driver:' + args[0])
        if not same(got, want, exact=False, tol=tol):
            fails.append({'step': step, 'call': trace[-1], 'trace': list(trace), 'program': prog.describe(), 'got': _ser(got), 'want': _ser(want)}); break
    return fails, n, trace
