"""C02/C14 bounded stand-in: operators between UTPM and every operand kind, both orders, in-place forms, powers,
NumPy-broadcast shape pairs; oracle = bounded/polyarith.py (independent) + NumPy's own result_type / broadcast_shapes."""
import operator, numpy
from lib import native
from . import polyarith as PA


def mk(rng, D, P, shp, cplx=False, positive=True):
    n = D * P * int(numpy.prod(shp, dtype=int))
    x = numpy.array([native.rnd(rng, -1, 1, 8) for _ in range(n)]).reshape((D, P) + tuple(shp))
    if positive: x[0] = numpy.abs(x[0]) + 0.5
    if cplx: x = x + 1j * numpy.array([native.rnd(rng, -1, 1, 8) for _ in range(n)]).reshape(x.shape)
    return x


def constants(P, shp):
    cs = [('int', 2), ('one', 1), ('one[float]', 1.0), ('zero', 0), ('minus one', -1), ('float', 1.5), ('complex', 1 + 2j), ('np.float64', numpy.float64(0.75)), ('np.int64', numpy.int64(3)), ('np.complex128', numpy.complex128(0.5 + 1j)), ('np.float32', numpy.float32(0.5))]
    cs += [('arr[1,1,1]', numpy.array([[[2.5]]])), ('arr[1,1]', numpy.array([[3.]]))]          # ONE element but more dimensions than the polynomial: the result has the broadcast shape
    if shp:
        n = int(numpy.prod(shp))
        cs += [('arr[same]', (numpy.arange(1., n + 1) / 2).reshape(shp)), ('arr[int]', numpy.arange(1, n + 1).reshape(shp)), ('arr[cplx]', (numpy.arange(1., n + 1) * (1 + 1j)).reshape(shp)),
               ('arr[extra-dim 3]', (numpy.arange(1., 3 * n + 1) / 4).reshape((3,) + tuple(shp))), ('arr[extra-dim P]', (numpy.arange(1., P * n + 1) / 4).reshape((P,) + tuple(shp))),
               ('arr[last-dim]', numpy.arange(1., shp[-1] + 1)), ('arr[1]', numpy.array([2.]))]
    return cs

BIN = [('+', operator.add, PA.add), ('-', operator.sub, PA.sub), ('*', operator.mul, PA.mul), ('/', operator.truediv, PA.div)]
IOPS = [('+=', operator.iadd, PA.add), ('-=', operator.isub, PA.sub), ('*=', operator.imul, PA.mul), ('/=', operator.itruediv, PA.div)]


def _cmp(got, want, want_dtype=None, tol=1e-10):
    if got.shape != want.shape: return 'shape %s != %s' % (got.shape, want.shape)
    if not numpy.allclose(got, want, rtol=tol, atol=tol): return 'values differ (max abs err %.3g)' % numpy.abs(got - want).max()
    if want_dtype is not None and numpy.iscomplexobj(want) and not numpy.iscomplexobj(got): return 'imaginary part dropped (dtype %s)' % got.dtype
    return None


def run(rng, tier):
    """yields (case dict, failure string or None)"""
    a = native.algopy(); U = a.UTPM
    DPs = [(1, 1), (3, 2)] if tier == 'quick' else [(1, 1), (2, 1), (3, 2), (4, 3)]
    shapes = [(), (2,), (2, 3)] if tier == 'quick' else [(), (2,), (3,), (2, 3), (1, 3), (2, 1, 2)]
    for (D, P) in DPs:
        for shp in shapes:
            for xc in (False, True):
                x = mk(rng, D, P, shp, cplx=xc)
                # --- constants on either side
                for cname, c in constants(P, shp):
                    cd = PA.lift(c, D, P, dtype=numpy.asarray(c).dtype)
                    for opn, op, orc in BIN:
                        for order in ('xc', 'cx'):
                            case = {'op': opn, 'order': order, 'const': cname, 'D': D, 'P': P, 'shape': list(shp), 'x_complex': xc, 'x': x.tolist() if not xc else None, 'c': repr(c)}
                            ux = U(x.copy())
                            if cname == 'zero' and opn == '/' : continue                      # division by / of zero is outside the ring
                            try: r = op(ux, c) if order == 'xc' else op(c, ux)
                            except Exception as e: yield case, 'raises %s: %s' % (type(e).__name__, str(e)[:120]); continue
                            if not isinstance(r, U): yield case, 'returns %s instead of a Taylor polynomial' % type(r).__name__; continue
                            want = orc(x, cd) if order == 'xc' else orc(cd, x)
                            f = _cmp(r.data, want, True)
                            # a binary operator returns a NEW polynomial, also for the neutral element: a result that is (or shares memory with) the
                            # operand is overwritten by the next in-place update of either
                            if f is None and (r is ux or numpy.shares_memory(r.data, ux.data)): f = 'the result of the non-in-place operator %s the operand' % ('is' if r is ux else 'shares memory with')
                            if f is None and not numpy.array_equal(ux.data, x): f = 'operand modified by a non-in-place operator'
                            yield case, f
                    # in-place with a constant that does not enlarge the shape / change the kind
                    carr = numpy.asarray(c)
                    if numpy.iscomplexobj(carr) and not xc: continue
                    if carr.ndim > len(shp) or (carr.ndim and numpy.broadcast_shapes(carr.shape, shp) != tuple(shp)): continue
                    for opn, op, orc in IOPS:
                        if cname == 'zero' and opn == '/=': continue
                        case = {'op': opn, 'const': cname, 'D': D, 'P': P, 'shape': list(shp), 'x_complex': xc, 'c': repr(c)}
                        u = U(x.copy())
                        try: r = op(u, c)
                        except Exception as e: yield case, 'raises %s: %s' % (type(e).__name__, str(e)[:120]); continue
                        yield case, ('in-place operator returned a different object' if r is not u else _cmp(u.data, orc(x, cd).astype(x.dtype)))
                # --- powers
                for r_ in (0, 1, 2, 3, 5, -1, -2, 0.5, 2.5, -1.5, numpy.float64(1.25), 0.5 + 1j):
                    case = {'op': '**', 'r': repr(r_), 'D': D, 'P': P, 'shape': list(shp), 'x_complex': xc}
                    try: r = U(x.copy()) ** r_
                    except Exception as e: yield case, 'raises %s: %s' % (type(e).__name__, str(e)[:120]); continue
                    yield case, _cmp(r.data, PA.powc(x, r_), True, tol=1e-9)
                # integer powers are defined (no division) at a vanishing or tiny zeroth coefficient: exact repeated Cauchy product
                if not xc:
                    for r_ in (2, 3, 4, 5, 7, numpy.int64(3), numpy.int32(2), numpy.int64(1), numpy.int64(0)):          # an integer exponent taken from an array (numpy.integer) is an integer exponent
                        for x0v in (0.0, 1e-100):
                            xz = x.copy(); xz[0] = x0v
                            if D > 1 and shp: xz[0][(0,) * (xz[0].ndim - 1) + (-1,)] = 0.75           # a regular entry next to the special ones
                            case = {'op': '**', 'r': repr(r_), 'D': D, 'P': P, 'shape': list(shp), 'x0': x0v}
                            try:
                                with numpy.errstate(all='ignore'): r = U(xz.copy()) ** r_
                            except Exception as e: yield case, 'raises %s: %s' % (type(e).__name__, str(e)[:120]); continue
                            want = PA.powc(xz, r_)
                            ok = numpy.all(numpy.isfinite(r.data)) and numpy.allclose(r.data, want, rtol=1e-9, atol=1e-300)
                            yield case, (None if ok else 'integer power at a zero / tiny zeroth coefficient differs from the repeated Cauchy product (max err %.3g, non-finite: %s)' % (float(numpy.nanmax(numpy.abs(r.data - want))) if numpy.isfinite(r.data).any() else float('nan'), not numpy.all(numpy.isfinite(r.data))))
                for b in (2, 2.5, numpy.float64(1.5)):
                    case = {'op': 'rpow', 'base': repr(b), 'D': D, 'P': P, 'shape': list(shp), 'x_complex': xc}
                    try: r = b ** U(x.copy())
                    except Exception as e: yield case, 'raises %s: %s' % (type(e).__name__, str(e)[:120]); continue
                    yield case, _cmp(r.data, PA.exp(numpy.log(b) * x), True, tol=1e-9)
            # --- UTPM op UTPM over broadcastable shape pairs, real/complex mixes, and aliased operands
            for shp2 in shapes:
                try: numpy.broadcast_shapes(shp, shp2)
                except ValueError: continue
                for (c1, c2) in ((False, False), (False, True), (True, False)):
                    x = mk(rng, D, P, shp, cplx=c1); y = mk(rng, D, P, shp2, cplx=c2)
                    for opn, op, orc in BIN:
                        case = {'op': opn, 'kinds': 'UTPM,UTPM', 'D': D, 'P': P, 'shapes': [list(shp), list(shp2)], 'complex': [c1, c2]}
                        try: r = op(U(x.copy()), U(y.copy()))
                        except Exception as e: yield case, 'raises %s: %s' % (type(e).__name__, str(e)[:120]); continue
                        yield case, _cmp(r.data, orc(x, y), True)
                    if shp == shp2 and not c1 and not c2:
                        case = {'op': '**', 'kinds': 'UTPM**UTPM', 'D': D, 'P': P, 'shape': list(shp)}
                        try: r = U(x.copy()) ** U(y.copy())
                        except Exception as e: yield case, 'raises %s: %s' % (type(e).__name__, str(e)[:120]); continue
                        yield case, _cmp(r.data, PA.exp(PA.mul(PA.log(x), y)), tol=1e-9)
                    if numpy.broadcast_shapes(shp, shp2) == tuple(shp) and (c1 or not c2):
                        for opn, op, orc in IOPS:
                            case = {'op': opn, 'kinds': 'UTPM,UTPM', 'D': D, 'P': P, 'shapes': [list(shp), list(shp2)], 'complex': [c1, c2]}
                            u = U(x.copy())
                            try: r = op(u, U(y.copy()))
                            except Exception as e: yield case, 'raises %s: %s' % (type(e).__name__, str(e)[:120]); continue
                            yield case, ('in-place operator returned a different object' if r is not u else _cmp(u.data, orc(x, y).astype(u.data.dtype)))
            # --- x op x and x op= x  (C14: same coefficients as with an independent copy)
            x = mk(rng, D, P, shp)
            for opn, op, orc in BIN:
                u = U(x.copy()); case = {'op': opn, 'kinds': 'x op x (same object)', 'D': D, 'P': P, 'shape': list(shp)}
                try: r = op(u, u)
                except Exception as e: yield case, 'raises %s' % type(e).__name__; continue
                yield case, (_cmp(r.data, orc(x, x)) or (None if numpy.array_equal(u.data, x) else 'operand modified by a non-in-place operation'))
            for opn, op, orc in IOPS:
                u = U(x.copy()); case = {'op': opn, 'kinds': 'x op= x (same object)', 'D': D, 'P': P, 'shape': list(shp)}
                try: r = op(u, u)
                except Exception as e: yield case, 'raises %s' % type(e).__name__; continue
                yield case, _cmp(u.data, orc(x, x))
            if shp and shp[0] >= 2:
                # right operand partially overlaps the left one (shifted / reversed / transposed views of the same buffer)
                x3 = mk(rng, D, P, (4,) + tuple(shp[1:]))
                views = [('x[1:] op= x[:-1]', lambda u: (u[1:], u[:-1]), lambda a_: (a_[:, :, 1:], a_[:, :, :-1])),
                         ('x[:-1] op= x[1:]', lambda u: (u[:-1], u[1:]), lambda a_: (a_[:, :, :-1], a_[:, :, 1:])),
                         ('x op= x[::-1]', lambda u: (u, u[::-1]), lambda a_: (a_, a_[:, :, ::-1]))]
                if len(shp) == 2 and shp[0] == shp[1]: views.append(('A op= A.T', lambda u: (u, u.T), lambda a_: (a_, numpy.swapaxes(a_, 2, 3))))
                for vname, mkv, mka in views:
                    base = x3 if not vname.startswith('A') else mk(rng, D, P, shp)
                    for opn, op, orc in IOPS:
                        u = U(base.copy()); case = {'op': opn, 'kinds': vname + ' (overlapping views)', 'D': D, 'P': P, 'shape': list(base.shape[2:])}
                        try:
                            l, r_ = mkv(u); l = op(l, r_)
                        except Exception as e: yield case, 'raises %s: %s' % (type(e).__name__, str(e)[:100]); continue
                        la, ra = mka(base.copy()); want = orc(la.copy(), ra.copy())
                        got = mka(u.data)[0]
                        yield case, _cmp(got, want)
            if shp:
                for opn, op, orc in IOPS:          # right operand is a view of the left
                    u = U(x.copy()); v = u[...]; case = {'op': opn, 'kinds': 'x op= view(x)', 'D': D, 'P': P, 'shape': list(shp)}
                    try: r = op(u, v)
                    except Exception as e: yield case, 'raises %s' % type(e).__name__; continue
                    yield case, _cmp(u.data, orc(x, x))
