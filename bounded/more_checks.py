"""Bounded stand-ins for C09 (forward drivers), C15 (exact interpolation), C16 (closed-form n-th derivatives), C17 (conversions)."""
import ast, itertools, math, os, types, numpy
from fractions import Fraction
from lib import native
from lib.report import REPO
from . import progs, tracer_checks as T


def A(): return native.algopy()


# =============================================================================================== C09
def poly_programs(rng, n, N):
    """integer-coefficient polynomial programs R^N -> R / R^M"""
    out = []
    ints = [2, 3, -1, numpy.arange(1, N + 1)]
    base = [k for k, o in progs.OPS.items() if o['poly'] and k not in ('div_c', 'negative', 'buffer', 'buffer_views')]
    tries = 0
    while len(out) < n and tries < 400 * n:
        tries += 1
        stmts = []; shp = {0: (N,)}
        for i in range(1, rng.randint(2, 5)):
            for _ in range(10):
                nm = rng.choice(base); o = progs.OPS[nm]
                args = tuple(rng.choice(list(shp)) for _ in range(o['arity'])); params = {}
                vs = o['f'].__code__.co_varnames[:o['f'].__code__.co_argcount]
                if 'c' in vs:
                    c = rng.choice(ints); params['c'] = c if not isinstance(c, numpy.ndarray) else c.astype(float)
                if nm == 'getitem': params['sl'] = rng.choice([0, -1, slice(1, None), slice(None, None, -1)])
                if nm == 'reshape': continue
                if nm == 'sum': params['axis'] = None
                if nm == 'dot_c': continue
                r = o['rule']([shp[a] for a in args], params)
                if r is None or len(r) > 1 or 0 in tuple(r): continue          # no empty intermediates (x[1:] of a length-1 vector): degenerate programs
                stmts.append((i, nm, args, params)); shp[i] = tuple(r); break
        if stmts:
            p = progs.Program(N, stmts, 'poly%d' % len(out))
            if p.shapes() is not None: out.append(p)
    return out


def c09(rng, tier):
    a = A(); U = a.UTPM; ns = progs.NS(a)
    import sympy as sp
    Ns = (1, 2, 3) if tier == 'quick' else (1, 2, 3, 4, 5)
    for N in Ns:
        ps = poly_programs(rng, 6 if tier == 'quick' else 30, N)
        smooth = [p for p in progs.random_programs(4 if tier == 'quick' else 25, rng, N=max(N, 2), maxlen=3)] if N >= 2 else []
        for p in ps + smooth:
            poly = p.is_poly() and p in ps
            for pt in ('int', 'real'):
                if pt == 'int' and not poly: continue
                x = numpy.array([float(rng.randint(1, 3)) for _ in range(p.N)]) if pt == 'int' else numpy.array([native.rnd(rng, 0.25, 1.0) for _ in range(p.N)])
                v = numpy.array([float(rng.randint(-2, 2)) for _ in range(p.N)])
                tol = 1e-12 if poly else 1e-9
                sc = progs.scalarize(p); vc = progs.vectorize(p)
                try:
                    F, J, H = T.exact(vc, x); Fs, Js, Hs = T.exact(sc, x)
                except Exception: continue
                def cmp(name, got, want):
                    got = numpy.asarray(got, dtype=float); want = numpy.asarray(want, dtype=float)
                    ok = got.shape == want.shape and numpy.allclose(got, want, rtol=tol, atol=tol * max(1.0, numpy.abs(want).max() if want.size else 1.0))
                    return ({'driver': name, 'program': p.describe(), 'point': pt, 'x': x.tolist(), 'v': v.tolist(), 'N': p.N}, None if ok else 'got %s, exact %s' % (got.tolist(), want.tolist()))
                try:
                    yield cmp('init_jacobian/extract_jacobian', U.extract_jacobian(vc.run(ns, U.init_jacobian(x))), J)
                    yield cmp('init_jac_vec/extract_jac_vec', U.extract_jac_vec(vc.run(ns, U.init_jac_vec(x, v))), J.dot(v))
                    # scalar-valued program: J v is a scalar; gradient through extract_jacobian; matrix-valued result (outer product of the vector program)
                    yield cmp('init_jac_vec/extract_jac_vec[scalar output]', U.extract_jac_vec(sc.run(ns, U.init_jac_vec(x, v))), Js[0].dot(v))
                    yield cmp('init_jacobian/extract_jacobian[scalar output]', U.extract_jacobian(sc.run(ns, U.init_jacobian(x))), Js[0])
                    if len(F) >= 2:
                        c_ = numpy.arange(1., 4.)
                        ym = vc.run(ns, U.init_jac_vec(x, v)); Ym = a.outer(ym, c_) if hasattr(a, 'outer') else None
                        if Ym is not None: yield cmp('init_jac_vec/extract_jac_vec[matrix output]', U.extract_jac_vec(Ym), numpy.outer(J.dot(v), c_))
                    yield cmp('init_hessian/extract_hessian', U.extract_hessian(p.N, sc.run(ns, U.init_hessian(x))), Hs[0])
                    yield cmp('init_hess_vec/extract_hess_vec', U.extract_hess_vec(p.N, sc.run(ns, U.init_hess_vec(x, v))), Hs[0].dot(v))
                    if p.N >= 2: yield cmp('init_tensor(2)/extract_tensor', U.extract_tensor(p.N, sc.run(ns, U.init_tensor(2, x))), Hs[0])
                    if poly and pt == 'int':
                        xi = x.astype(int)
                        yield cmp('init_hessian[int dtype]', U.extract_hessian(p.N, sc.run(ns, U.init_hessian(xi))), Hs[0])
                except Exception as e:
                    yield ({'driver': 'raises', 'program': p.describe(), 'x': x.tolist(), 'N': p.N}, '%s: %s' % (type(e).__name__, str(e)[:150]))
                # higher order tensors: all distinct d-th order partials divided by the multi-index factorial
                if poly and p.N <= 3:
                    for d in (((2, 3, 4) if p.N <= 2 else (2, 3)) if tier == 'quick' else (2, 3, 4, 5)):
                        try:
                            import algopy.exact_interpolation as ex
                            y = sc.run(ns, U.init_tensor(d, x)); got = U.extract_tensor(p.N, y, as_full_matrix=False)
                            xs = sp.symbols('x0:%d' % p.N, real=True)
                            f = sp.sympify(numpy.ravel(numpy.asarray(sc.run(progs.SymNS(), numpy.array(xs, dtype=object)), dtype=object))[0])
                            want = []
                            for mi in ex.generate_multi_indices(p.N, d):
                                e = f
                                for n_, k in enumerate(mi):
                                    if k: e = sp.diff(e, xs[n_], int(k))
                                want.append(float(e.subs(dict(zip(xs, x)))) / float(numpy.prod([math.factorial(int(k)) for k in mi])))
                            yield cmp('init_tensor(%d)/extract_tensor' % d, got, want)
                        except Exception as e:
                            yield ({'driver': 'tensor raises', 'program': p.describe(), 'd': d, 'N': p.N}, '%s: %s' % (type(e).__name__, str(e)[:150]))


def dense_polys(N):
    """fixed integer polynomials with non-vanishing mixed partial derivatives of every order <= 5 (python callables on UTPM / sympy objects)"""
    ws = [1, 2, -1, 3, 2][:N]
    def lin(x): 
        s_ = ws[0] * x[0]
        for i in range(1, N): s_ = s_ + ws[i] * x[i]
        return s_
    def horner(x):
        # a Horner scheme with in-place updates and leading coefficients 1, as user code writes it: p^3 + 3 p + x_0 x_{N-1} with p = x_0 + sum w_i x_i.
        # (an operator that returns its operand for the neutral element would let the updates overwrite the argument)
        p = 1 * x[0]
        for i in range(1, N): p += ws[i] * x[i]
        q = p * 1; q *= p; q += 3; q *= p
        return q + x[0] * x[N - 1]
    fs = [lambda x: lin(x) ** 5 + lin(x) ** 2, lambda x: (lin(x) * lin(x) + 1) * lin(x) * x[0] * x[N - 1] + x[0] ** 4 * x[N - 1], horner]
    return fs


def c09_tensors(rng, tier):
    a = A(); U = a.UTPM; import sympy as sp, algopy.exact_interpolation as ex
    for N in ((1, 2, 3) if tier == 'quick' else (1, 2, 3, 4)):
        xs = sp.symbols('x0:%d' % N, real=True)
        for fi, f in enumerate(dense_polys(N)):
            fsym = sp.expand(f(list(xs)))
            x = numpy.array([float(rng.randint(1, 3)) for _ in range(N)])
            for d in ((1, 2, 3, 4) if tier == 'quick' or N > 3 else (1, 2, 3, 4, 5)):
                if N >= 3 and d >= 5: continue
                case = {'driver': 'init_tensor(%d)/extract_tensor[dense polynomial %d]' % (d, fi), 'N': N, 'x': x.tolist()}
                try:
                    y = f(U.init_tensor(d, x)); got = U.extract_tensor(N, y, as_full_matrix=False)
                    want = []
                    for mi in ex.generate_multi_indices(N, d):
                        e = fsym
                        for n_, k in enumerate(mi):
                            if k: e = sp.diff(e, xs[n_], int(k))
                        want.append(float(e.subs(dict(zip(xs, x)))) / float(numpy.prod([math.factorial(int(k)) for k in mi])))
                    got = numpy.asarray(got, dtype=float); want = numpy.asarray(want)
                    ok = got.shape == want.shape and numpy.allclose(got, want, rtol=1e-9, atol=1e-9 * max(1.0, numpy.abs(want).max()))
                    yield case, (None if ok else 'got %s, exact %s' % (got.tolist(), want.tolist()))
                except Exception as e: yield case, 'raises %s: %s' % (type(e).__name__, str(e)[:120])


# =============================================================================================== C15
class _F(ast.NodeTransformer):
    """float literals -> Fraction, float(x) -> Fraction(x): the real source of exact_interpolation.py evaluated in exact rationals.
    Dropped: nothing else; `from scipy import factorial` fails on current SciPy, so the module's own fallback factorial is the one that runs
    (natively as well)."""
    def visit_Constant(self, n):
        if isinstance(n.value, float):
            return ast.copy_location(ast.Call(ast.Name('Fraction', ast.Load()), [ast.Constant(repr(n.value))], []), n)
        return n
    def visit_Call(self, n):
        self.generic_visit(n)
        if isinstance(n.func, ast.Name) and n.func.id == 'float': n.func = ast.Name('Fraction', ast.Load())
        return n


def exact_module():
    src = open(os.path.join(REPO, 'algopy/exact_interpolation.py')).read()
    tree = _F().visit(ast.parse(src)); ast.fix_missing_locations(tree)
    m = types.ModuleType('exact_interpolation_rational'); m.Fraction = Fraction
    exec(compile(tree, 'exact_interpolation.py[rational]', 'exec'), m.__dict__)
    # shim (value preserving): multi_index_abs returns a NumPy integer, and `numpy_int / Fraction` would be coerced to float by NumPy
    real_abs = m.multi_index_abs
    m.multi_index_abs = lambda z: (lambda r: int(r) if float(r) == int(r) else r)(real_abs(z))
    # shim (value preserving): numpy.prod of a list of rationals is formed exactly (numpy.prod([]) is the float 1.0)
    class _NP:
        def __getattr__(self, n): return getattr(numpy, n)
        def prod(self, seq, axis=None):
            if axis is not None or isinstance(seq, numpy.ndarray): return numpy.prod(seq, axis=axis)
            r = Fraction(1)
            for v in seq: r = r * (Fraction(int(v)) if isinstance(v, (int, numpy.integer)) else v)
            return r
    m.numpy = _NP()
    orig = m.generate_Gamma_and_rays
    def gen(N, deg):
        J = m.generate_multi_indices(N, deg); NJ = J.shape[0]
        G = numpy.empty((NJ, NJ), dtype=object)
        for ni in range(NJ):
            for nj in range(NJ): G[ni, nj] = m.gamma(J[ni, :], J[nj, :])
        return G, J.copy()
    m.exact_Gamma_and_rays = gen
    return m


def compositions(N, d):
    if N == 1: yield (d,); return
    for a in range(d, -1, -1):
        for rest in compositions(N - 1, d - a): yield (a,) + rest


def c15(rng, tier):
    a = A(); import algopy.exact_interpolation as ex
    mex = exact_module()
    bound = 6 if tier == 'quick' else 9
    pairs = [(N, d) for N in range(1, 6) for d in range(1, 6) if N + d <= bound]
    # the quick tier also takes the smallest pairs with three non-zero entries in a row index and an entry >= 2 occurring twice
    if tier == 'quick': pairs += [(3, 4), (2, 5), (3, 5), (4, 4)]
    for (N, d) in pairs:
        case = {'N': N, 'd': d}
        mi = ex.generate_multi_indices(N, d)
        want = list(compositions(N, d))
        rows = [tuple(int(v) for v in r) for r in mi]
        yield dict(case, what='multi-index list'), (None if sorted(rows) == sorted(want) and len(set(rows)) == len(rows) == len(want) else 'multi-index list is not the set of all monomials of degree d, each once')
        G, rays = mex.exact_Gamma_and_rays(N, d)               # exact rationals, computed by the real source
        Gf, raysf = ex.generate_Gamma_and_rays(N, d)           # native floats
        if not numpy.array_equal(raysf, numpy.asarray(rays, dtype=float)): yield dict(case, what='rays'), 'rays differ between float and rational evaluation'; continue
        bad = None
        for i in range(len(rows)):
            for al in range(len(rows)):
                s = Fraction(0)
                for j in range(len(rows)):
                    mono = Fraction(1)
                    for n_ in range(N): mono *= Fraction(int(rays[j][n_])) ** int(rows[al][n_])
                    s += G[i, j] * mono
                if s != (1 if i == al else 0): bad = 'sum_j Gamma[%s,j] ray_j^%s = %s, expected %d' % (rows[i], rows[al], s, i == al); break
            if bad: break
        yield dict(case, what='Gamma identity (exact rationals)'), bad
        err = max(abs(float(G[i, j]) - Gf[i, j]) for i in range(len(rows)) for j in range(len(rows)))
        scale = max(1.0, max(abs(float(G[i, j])) for i in range(len(rows)) for j in range(len(rows))))
        yield dict(case, what='float Gamma vs exact'), (None if err <= 1e-9 * scale else 'native float Gamma deviates from the exact rational Gamma by %.3g' % err)


# =============================================================================================== C16
def c16(rng, tier):
    a = A(); import algopy.nthderiv as nd, mpmath as mp, scipy.special as ss
    mp.mp.dps = 50
    nmax = 5 if tier == 'quick' else 8
    S = {
        'exp': (mp.exp, (-1, 1)), 'exp2': (lambda v: mp.mpf(2) ** v, (-1, 1)), 'expm1': (mp.expm1, (-1, 1)), 'log': (mp.log, (0.3, 2)), 'log2': (lambda v: mp.log(v, 2), (0.3, 2)),
        'log10': (mp.log10, (0.3, 2)), 'log1p': (mp.log1p, (-0.5, 1)), 'sqrt': (mp.sqrt, (0.3, 2)), 'square': (lambda v: v * v, (-1, 1)), 'negative': (lambda v: -v, (-1, 1)),
        'reciprocal': (lambda v: 1 / v, (0.4, 2)), 'sin': (mp.sin, (-1, 1)), 'cos': (mp.cos, (-1, 1)), 'arcsin': (mp.asin, (-0.7, 0.7)), 'arccos': (mp.acos, (-0.7, 0.7)),
        'arctan': (mp.atan, (-1, 1)), 'sinh': (mp.sinh, (-1, 1)), 'cosh': (mp.cosh, (-1, 1)), 'arcsinh': (mp.asinh, (-1, 1)), 'arccosh': (mp.acosh, (1.3, 3)), 'arctanh': (mp.atanh, (-0.7, 0.7)),
        'erf': (mp.erf, (-1, 1)), 'erfi': (mp.erfi, (-1, 1)), 'gammaln': (mp.loggamma, (0.5, 3)), 'psi': (mp.digamma, (0.5, 3)), 'tan': (mp.tan, (-1, 1)), 'tanh': (mp.tanh, (-1, 1)),
        'absolute': (lambda v: abs(v), (0.2, 1)), 'sign': (lambda v: mp.sign(v), (0.2, 1)),
    }
    for name, (f, dom) in S.items():
        if not hasattr(nd, name): continue
        g = getattr(nd, name)
        pts = [native.rnd(rng, dom[0], dom[1], 16) for _ in range(3 if tier == 'quick' else 8)] + [v for v in (0.0, 1.0, -1.0, 2.0, 0.5) if dom[0] <= v <= dom[1] or (name in ('square', 'negative', 'exp', 'exp2', 'expm1', 'sin', 'cos', 'sinh', 'cosh', 'arctan', 'arcsinh', 'erf', 'erfi', 'tanh') and abs(v) <= 2)]
        for x in pts:
            for n in range(0, nmax + 1):
                case = {'function': name, 'n': n, 'x': x}
                try: got = float(g(numpy.array([x]), n=n)[0])
                except Exception as e: yield case, 'raises %s: %s' % (type(e).__name__, str(e)[:100]); continue
                want = float(mp.diff(f, mp.mpf(x), n)) if n else float(f(mp.mpf(x)))
                ok = abs(got - want) <= 1e-8 * max(1.0, abs(want))
                yield case, (None if ok else 'n-th derivative: got %r, mpmath gives %r' % (got, want))
    extra = [('polygamma', (1,), lambda v: mp.psi(1, v), (0.5, 3)), ('polygamma', (2,), lambda v: mp.psi(2, v), (0.5, 3)), ('hyperu', (1.5, 0.5), lambda v: mp.hyperu(1.5, 0.5, v), (0.5, 2)),
             ('hyperu', (0.5, 1.5), lambda v: mp.hyperu(0.5, 1.5, v), (0.5, 2)),
             ('hyperu', (-0.5, 2.0), lambda v: mp.hyperu(-0.5, 2.0, v), (0.5, 2)), ('hyperu', (-1.5, 0.5), lambda v: mp.hyperu(-1.5, 0.5, v), (0.5, 2)), ('hyperu', (-2.5, 1.5), lambda v: mp.hyperu(-2.5, 1.5, v), (0.5, 2)),          # negative non-integer a: the rising factorial (a)_n changes sign with n
             ('polygamma', (0,), lambda v: mp.psi(0, v), (0.5, 3)), ('polygamma', (3,), lambda v: mp.psi(3, v), (0.5, 3)), ('clip', (0.1, 0.9), lambda v: v, (0.3, 0.7)), ('clip', (0.1, 0.2), lambda v: v * 0 + mp.mpf('0.2'), (0.3, 0.7))]
    for name, params, f, dom in extra:
        g = getattr(nd, name)
        for x in [native.rnd(rng, dom[0], dom[1], 16) for _ in range(3)]:
            for n in range(0, min(nmax, 5) + 1):
                case = {'function': name, 'params': list(params), 'n': n, 'x': x}
                try: got = float(g(*params, numpy.array([x]), n=n)[0])
                except Exception as e: yield case, 'raises %s: %s' % (type(e).__name__, str(e)[:100]); continue
                want = float(mp.diff(f, mp.mpf(x), n)) if n else float(f(mp.mpf(x)))
                yield case, (None if abs(got - want) <= 1e-7 * max(1.0, abs(want)) else 'n-th derivative: got %r, mpmath gives %r' % (got, want))
    # piecewise-constant ones: all derivatives of order >= 1 vanish away from the jumps
    for name in ('rint', 'fix', 'floor', 'ceil', 'trunc'):
        g = getattr(nd, name)
        for x in (0.3, 1.7, -2.2):
            for n in range(0, 4):
                got = float(g(numpy.array([x]), n=n)[0]); want = float(getattr(numpy, name)(x)) if n == 0 else 0.0
                yield {'function': name, 'n': n, 'x': x}, (None if got == want else 'got %r expected %r' % (got, want))
    # high orders: "every order n >= 0".  Closed forms with factorials / alternating products are exactly where integer overflow or a wrong
    # sign pattern shows only beyond n ~ 20.  One fixed interior point per function, oracle mpmath at 80 digits (polygamma directly for
    # gammaln / psi, whose numerical differentiation is slow); relative tolerance 1e-6 (the condition of the closed forms grows with n).
    mp.mp.dps = 80
    HI = {'exp': (mp.exp, 0.7), 'exp2': (lambda v: mp.mpf(2) ** v, 0.7), 'expm1': (mp.expm1, 0.7), 'log': (mp.log, 1.5), 'log2': (lambda v: mp.log(v, 2), 1.5), 'log10': (mp.log10, 1.5), 'log1p': (mp.log1p, 0.5),
          'sqrt': (mp.sqrt, 1.5), 'square': (lambda v: v * v, 0.7), 'negative': (lambda v: -v, 0.7), 'reciprocal': (lambda v: 1 / v, 1.5), 'sin': (mp.sin, 0.7), 'cos': (mp.cos, 0.7), 'arcsin': (mp.asin, 0.4),
          'arccos': (mp.acos, 0.4), 'arctan': (mp.atan, 0.7), 'sinh': (mp.sinh, 0.7), 'cosh': (mp.cosh, 0.7), 'arcsinh': (mp.asinh, 0.7), 'arccosh': (mp.acosh, 1.8), 'arctanh': (mp.atanh, 0.4), 'erf': (mp.erf, 0.7),
          'erfi': (mp.erfi, 0.7), 'gammaln': (None, 1.7), 'psi': (None, 1.7), 'tan': (mp.tan, 0.7), 'tanh': (mp.tanh, 0.7)}
    for name, (f, x) in HI.items():
        if not hasattr(nd, name): continue
        g = getattr(nd, name)
        for n in ((12, 23) if tier == 'quick' else (16, 21, 22, 23, 30, 40)):
            case = {'function': name, 'n': n, 'x': x, 'pass': 'high order'}
            try:
                with numpy.errstate(all='ignore'): got = float(g(numpy.array([x]), n=n)[0])
            except Exception as e: yield case, 'raises %s: %s' % (type(e).__name__, str(e)[:100]); continue
            if name == 'gammaln': want = float(mp.psi(n - 1, mp.mpf(x)))
            elif name == 'psi': want = float(mp.psi(n, mp.mpf(x)))
            else: want = float(mp.diff(f, mp.mpf(x), n))
            ok = abs(got - want) <= 1e-6 * max(1.0, abs(want))
            yield case, (None if ok else 'n-th derivative at high order: got %r, mpmath gives %r' % (got, want))
    mp.mp.dps = 50
    # integer-typed points are points of the domain too: for n >= 1 the value must be the one at the same point in floating point.  A
    # function may refuse integer dtype loudly (NumPy itself refuses integer ** negative integer); a silently different value is a
    # violation.  n = 0 is the NumPy/SciPy function by definition (numpy.reciprocal of integers is integer division) and is not compared.
    for name in sorted(dir(nd)):
        g = getattr(nd, name)
        if not hasattr(g, 'extras'): continue
        params = {0: (), 1: (1,), 2: (1.5, 0.5)}.get(g.extras)
        if params is None or name == 'clip': continue
        for pts in (numpy.array([2, 3]), 2, numpy.array([[2, 3], [4, 5]])):
            for n in range(1, 4):
                case = {'function': name, 'n': n, 'x': str(pts).replace('\n', ''), 'dtype': 'integer'}
                with numpy.errstate(all='ignore'):
                    try: want = g(*params, numpy.asarray(pts, dtype=float), n=n)
                    except Exception: continue
                    try: got = g(*params, pts, n=n)
                    except Exception: yield case, None; continue
                ok = numpy.shape(got) == numpy.shape(want) and numpy.allclose(got, want, rtol=1e-12, atol=1e-300, equal_nan=True)
                yield case, (None if ok else 'at an integer-typed point the %d-th derivative is %s, at the same point in floating point %s' % (n, str(got)[:40], str(want)[:40]))
    # negative order must be refused, order 0 is the function itself with out=
    try:
        nd.exp(numpy.array([0.5]), n=-1); yield {'function': 'exp', 'n': -1}, 'negative order accepted'
    except ValueError: yield {'function': 'exp', 'n': -1}, None


# =============================================================================================== C17
def c17(rng, tier):
    a = A(); U = a.UTPM; import scipy.linalg, algopy.utils as ut
    # ---- base point + directions <-> polynomial
    for shp in ((3,), (2, 2), ()):
        for P in (1, 3):
            x = numpy.array([native.rnd(rng) for _ in range(int(numpy.prod(shp, dtype=int)))]).reshape(shp)
            V = numpy.array([native.rnd(rng) for _ in range(int(numpy.prod(shp, dtype=int)) * P * 2)]).reshape(shp + (P, 2))
            case = {'conv': 'base_and_dirs', 'shape': list(shp), 'P': P}
            try:
                u = ut.base_and_dirs2utpm(x, V); x2, V2 = ut.utpm2base_and_dirs(u)
                ok = numpy.array_equal(x2, x) and numpy.array_equal(V2, V)
                yield case, (None if ok else 'utpm2base_and_dirs(base_and_dirs2utpm(x, V)) != (x, V)')
                u2 = ut.base_and_dirs2utpm(*ut.utpm2base_and_dirs(u))
                yield dict(case, dir='utpm->pair->utpm'), (None if numpy.array_equal(u2.data, u.data) else 'round trip from the polynomial side loses data')
            except Exception as e: yield case, 'raises %s: %s' % (type(e).__name__, str(e)[:100])
    # ---- symmetric matrix <-> vector, all storage conventions
    for n in (1, 2, 3, 4):
        for (D, P) in ((1, 1), (3, 2)):
            Ad = numpy.array([native.rnd(rng) for _ in range(D * P * n * n)]).reshape(D, P, n, n); Ad = Ad + numpy.swapaxes(Ad, 2, 3)
            for uplo in ('F', 'L', 'U'):
                case = {'conv': 'symvec/vecsym', 'n': n, 'UPLO': uplo, 'D': D, 'P': P}
                try:
                    v = a.symvec(U(Ad.copy()), uplo); B = a.vecsym(v)
                    f = None
                    if v.data.shape != (D, P, n * (n + 1) // 2): f = 'vector of distinct entries has shape %s' % (v.data.shape,)
                    elif not numpy.array_equal(B.data, Ad): f = 'vecsym(symvec(A)) != A'
                    elif not numpy.array_equal(a.symvec(a.vecsym(v), uplo).data, v.data): f = 'symvec(vecsym(v)) != v'
                    yield case, f
                except Exception as e: yield case, 'raises %s: %s' % (type(e).__name__, str(e)[:100])
            A0 = Ad[0, 0]
            try: yield {'conv': 'symvec/vecsym[ndarray]', 'n': n}, (None if numpy.array_equal(ut.vecsym(ut.symvec(A0)), A0) else 'plain-array round trip fails')
            except Exception as e: yield {'conv': 'symvec/vecsym[ndarray]', 'n': n}, 'raises %s' % type(e).__name__
    # ---- containers of polynomials <-> one polynomial
    for (D, P) in ((1, 1), (3, 2)):
        for shp in ((3,), (2, 2)):
            xs = numpy.array([native.rnd(rng) for _ in range(D * P * int(numpy.prod(shp)))]).reshape((D, P) + shp)
            u = U(xs.copy())
            case = {'conv': 'as_utpm', 'shape': list(shp), 'D': D, 'P': P}
            try:
                cont = numpy.empty(shp, dtype=object)
                for idx in numpy.ndindex(*shp): cont[idx] = u[idx]
                w = U.as_utpm(cont)
                f = None if numpy.array_equal(w.data, xs) else 'as_utpm(container of elements) != original polynomial'
                # the same container in other memory layouts (transposed view of the transposed container, Fortran order, reversed view): the
                # element at index idx of the container is the element at index idx of the polynomial, whatever the layout
                if f is None and len(shp) >= 2:
                    contT = numpy.empty(shp[::-1], dtype=object).T
                    for idx in numpy.ndindex(*shp): contT[idx] = u[idx]
                    for lname, c_ in (('transposed view', contT), ('Fortran order', numpy.asfortranarray(cont)), ('reversed view', cont[::-1][::-1]), ('swapaxes twice', numpy.swapaxes(numpy.swapaxes(cont, 0, 1).copy(), 0, 1))):
                        w_ = U.as_utpm(c_)
                        if w_.data.shape != xs.shape or not numpy.array_equal(w_.data, xs): f = 'as_utpm(container in %s layout) != original polynomial' % lname; break
                if f is None:
                    lst = [u[i] for i in range(shp[0])]
                    w2 = U.as_utpm(lst)
                    if not numpy.array_equal(w2.data, xs): f = 'as_utpm(list of rows) != original polynomial'
                yield case, f
            except Exception as e: yield case, 'raises %s: %s' % (type(e).__name__, str(e)[:100])
            # containers mixing polynomials with plain numbers: a number is the constant polynomial (c, 0, ..., 0)
            case2 = {'conv': 'as_utpm[mixed with plain numbers]', 'shape': list(shp), 'D': D, 'P': P}
            try:
                cont = numpy.empty(shp, dtype=object); want = xs.copy()
                for k_, idx in enumerate(numpy.ndindex(*shp)):
                    if k_ % 2 == 1:
                        c_ = [2.5, 3, numpy.float64(-1.25)][k_ % 3]; cont[idx] = c_; want[(slice(None), slice(None)) + idx] = 0.; want[(0, slice(None)) + idx] = c_
                    else: cont[idx] = u[idx]
                w = U.as_utpm(cont)
                f = None if w.data.shape == want.shape and numpy.array_equal(w.data, want) else 'as_utpm of a container mixing polynomials and plain numbers: element-wise read-back differs (a number must become the constant polynomial)'
                yield case2, f
            except Exception as e: yield case2, 'raises %s: %s' % (type(e).__name__, str(e)[:100])
    # ---- ndarray2utpm (containers of any rank) and utpm2dirs
    for (D, P) in ((1, 1), (2, 2)):
        for shp in ((3,), (2, 2), (2, 3), (2, 1, 2)):
            ref = numpy.array([native.rnd(rng) for _ in range(D * P * int(numpy.prod(shp)))]).reshape((D, P) + shp)
            cont = numpy.empty(shp, dtype=object)
            for idx in numpy.ndindex(*shp): cont[idx] = U(ref[(slice(None), slice(None)) + idx].copy())
            case = {'conv': 'ndarray2utpm', 'shape': list(shp), 'D': D, 'P': P}
            try:
                w = ut.ndarray2utpm(cont)
                yield case, (None if w.data.shape == ref.shape and numpy.array_equal(w.data, ref) else 'ndarray2utpm(container)[index] differs from the element it was built from')
            except Exception as e: yield case, 'raises %s: %s' % (type(e).__name__, str(e)[:100])
            case = {'conv': 'utpm2dirs', 'shape': list(shp), 'D': D, 'P': P}
            try:
                V = ut.utpm2dirs(U(ref.copy())); ok = V.shape == shp + (P, D) and all(numpy.array_equal(V[..., p_, d_], ref[d_, p_]) for p_ in range(P) for d_ in range(D))
                yield case, (None if ok else 'utpm2dirs(u)[..., p, d] != u.data[d, p]')
            except Exception as e: yield case, 'raises %s: %s' % (type(e).__name__, str(e)[:100])
    # ---- blocks of matrix polynomials <-> one matrix polynomial
    for (D, P) in ((1, 1), (3, 2)):
        for (rows, cols) in (((2, 1), (2, 3)), ((1,), (2, 2)), ((2, 2), (1,))):
            blocks = [[U(numpy.array([native.rnd(rng) for _ in range(D * P * r_ * c_)]).reshape(D, P, r_, c_)) for c_ in cols] for r_ in rows]
            case = {'conv': 'combine_blocks', 'block rows': list(rows), 'block cols': list(cols), 'D': D, 'P': P}
            for kind in ('list', 'object array'):
                try:
                    arg = blocks
                    if kind == 'object array':
                        arg = numpy.empty((len(rows), len(cols)), dtype=object)
                        for i_ in range(len(rows)):
                            for j_ in range(len(cols)): arg[i_, j_] = blocks[i_][j_]
                    Z = U.combine_blocks(arg)
                    f = None; r0 = 0
                    if Z.data.shape != (D, P, sum(rows), sum(cols)): f = 'shape %s' % (Z.data.shape,)
                    for i_, r_ in enumerate(rows):
                        c0 = 0
                        for j_, c_ in enumerate(cols):
                            if f is None and not numpy.array_equal(Z.data[:, :, r0:r0 + r_, c0:c0 + c_], blocks[i_][j_].data): f = 'block (%d,%d) of the combined polynomial differs from the block it was built from' % (i_, j_)
                            c0 += c_
                        r0 += r_
                    yield dict(case, container=kind), f
                except Exception as e: yield dict(case, container=kind), 'raises %s: %s' % (type(e).__name__, str(e)[:100])
    # ---- shift by s then -s on the retained part
    for D in (1, 2, 4):
        x = U(numpy.array([native.rnd(rng) for _ in range(D * 2 * 2)]).reshape(D, 2, 2))
        for s in range(-D, D + 1):
            case = {'conv': 'shift', 'D': D, 's': s}
            try:
                y = x.shift(s); want = numpy.zeros_like(x.data)
                for d in range(D):
                    if 0 <= d - s < D: want[d] = x.data[d - s]
                f = None if numpy.array_equal(y.data, want) else 'shift(%d) is not the coefficient shift' % s
                if f is None:
                    z = y.shift(-s)
                    keep = [d for d in range(D) if 0 <= d + s < D]
                    if not all(numpy.array_equal(z.data[d], x.data[d]) for d in keep): f = 'shift(s) then shift(-s) does not restore the retained coefficients'
                yield case, f
            except Exception as e: yield case, 'raises %s: %s' % (type(e).__name__, str(e)[:100])
    # ---- pivot vectors: all vectors producible by lu_factor for N <= bound, enumerated
    Nmax = 4 if tier == 'quick' else 6
    for N in range(1, Nmax + 1):
        pivs = set()
        for piv in itertools.product(*[range(i, N) for i in range(N)]):          # LAPACK: piv[i] >= i
            pivs.add(piv)
        for piv in sorted(pivs):
            piv = numpy.array(piv)
            # apply the row interchanges the LAPACK way to a generic matrix and compare
            Amat = numpy.arange(1., N * N + 1).reshape(N, N) + numpy.eye(N) * 0.5
            rows = list(range(N))
            for i in range(N): rows[i], rows[piv[i]] = rows[piv[i]], rows[i]
            Pm = ut.piv2mat(piv); sgn = ut.piv2det(piv)
            case = {'conv': 'piv2mat/piv2det', 'N': N, 'piv': piv.tolist()}
            # P L U = A with (L U) = A[rows]  <=>  P^T A = A[rows]
            f = None
            if not numpy.array_equal(Pm.T.dot(Amat), Amat[rows]): f = 'piv2mat(piv) is not the permutation matrix with P L U = A'
            elif not numpy.isclose(sgn, numpy.linalg.det(Pm)): f = 'piv2det(piv) = %s but det(P) = %s' % (sgn, numpy.linalg.det(Pm))
            yield case, f
        # cross-check with scipy.linalg.lu_factor on random matrices
        for _ in range(5 if tier == 'quick' else 40):
            M = numpy.array([native.rnd(rng) for _ in range(N * N)]).reshape(N, N) + numpy.eye(N)[::-1] * (1 if _ % 2 else 0)
            try: lu, piv = scipy.linalg.lu_factor(M)
            except Exception: continue
            L = numpy.tril(lu, -1) + numpy.eye(N); Uu = numpy.triu(lu)
            Pm = ut.piv2mat(piv); sgn = ut.piv2det(piv)
            f = None
            if not numpy.allclose(Pm.dot(L).dot(Uu), M): f = 'P L U != A for the pivots returned by lu_factor'
            elif not numpy.isclose(sgn * numpy.prod(numpy.diag(Uu)), numpy.linalg.det(M)): f = 'det(A) != sign * prod(diag(U))'
            yield {'conv': 'lu_factor cross-check', 'N': N, 'piv': piv.tolist()}, f
