"""C07 / C08 bounded stand-ins: linear-algebra functions and factorizations as run-time residual contracts, products formed by
the independent truncated arithmetic of bounded/polyarith.py (not algopy's _dot)."""
import numpy, math, itertools
from lib import native
from . import polyarith as PA


def A(): return native.algopy()
def rnd_arr(rng, shape, den=8): return numpy.array([native.rnd(rng, -1, 1, den) for _ in range(int(numpy.prod(shape, dtype=int)))]).reshape(shape)


PATTERN = ['dense']
def poly(rng, D, P, shp, base=None):
    """random polynomial data; PATTERN[0] selects the sparsity of the higher coefficients:
       dense | linear (only A_0 + t A_1, all higher orders exactly zero in every direction) | constant (A_0 only) | gap (A_1 = 0)"""
    x = rnd_arr(rng, (D, P) + tuple(shp))
    if PATTERN[0] == 'linear': x[2:] = 0
    elif PATTERN[0] == 'constant': x[1:] = 0
    elif PATTERN[0] == 'gap' and D > 2: x[1] = 0
    if base is not None:
        for p in range(P): x[0, p] = base(p)
    return x


def with_patterns(gen):
    def run(rng, tier):
        for pat in ('dense', 'linear', 'gap', 'constant'):
            PATTERN[0] = pat
            try:
                for case, fail in gen(rng, tier):
                    if pat != 'dense' and case.get('D', 1) < 3: continue
                    yield dict(case, coefficients=pat), fail
            finally: PATTERN[0] = 'dense'
    return run


def close(a, b, tol=1e-8):
    return a.shape == b.shape and bool(numpy.allclose(a, b, rtol=tol, atol=tol * max(1.0, float(numpy.abs(b).max()) if b.size else 1.0)))


def ident(D, P, n):
    I = numpy.zeros((D, P, n, n)); I[0] = numpy.eye(n); return I


def wellcond(rng, n, p, pivot=False):
    M = rnd_arr(rng, (n, n)) + (2.5 + 0.5 * p) * numpy.eye(n)
    if pivot == 'cyclic': M = numpy.roll(M, 1, axis=0).copy()   # row pivoting with a permutation that is not an involution (n >= 3)
    elif pivot: M = M[::-1].copy()          # needs row pivoting
    return M


def c07(rng, tier):
    a = A(); U = a.UTPM
    DPs = [(1, 1), (3, 2), (6, 1)] if tier == 'quick' else [(1, 1), (2, 1), (4, 2), (5, 3), (8, 1)]
    for (D, P) in DPs:
        # ---- dot: every rank combination and operand kind
        rankshapes = [((3,), (3,)), ((2, 3), (3,)), ((3,), (3, 2)), ((2, 3), (3, 2)), ((2, 2, 3), (3,)), ((2, 3), (2, 3, 2)), ((2, 2, 3), (3, 2))]
        for (sx, sy) in rankshapes:
            x = poly(rng, D, P, sx); y = poly(rng, D, P, sy)
            for kinds in ('UU', 'UC', 'CU'):
                case = {'fn': 'dot', 'kinds': kinds, 'shapes': [list(sx), list(sy)], 'D': D, 'P': P}
                try:
                    if kinds == 'UU': r = a.dot(U(x.copy()), U(y.copy())); want = _dotpoly(x, y)
                    elif kinds == 'UC': c = y[0, 0].copy(); r = a.dot(U(x.copy()), c); want = _dotpoly(x, PA.lift(c, D, P))
                    else: c = x[0, 0].copy(); r = a.dot(c, U(y.copy())); want = _dotpoly(PA.lift(c, D, P), y)
                except Exception as e: yield case, 'raises %s: %s' % (type(e).__name__, str(e)[:100]); continue
                yield case, (None if close(r.data, want) else 'dot differs from the truncated product of the coefficient arrays')
        # ---- outer
        for (n, m) in ((3, 3), (3, 2)):
            x = poly(rng, D, P, (n,)); y = poly(rng, D, P, (m,))
            for kinds in ('UU', 'UC', 'CU'):
                case = {'fn': 'outer', 'kinds': kinds, 'shapes': [[n], [m]], 'D': D, 'P': P}
                try:
                    if kinds == 'UU': r = a.outer(U(x.copy()), U(y.copy())); want = _outerpoly(x, y)
                    elif kinds == 'UC': r = a.outer(U(x.copy()), y[0, 0].copy()); want = _outerpoly(x, PA.lift(y[0, 0], D, P))
                    else: r = a.outer(x[0, 0].copy(), U(y.copy())); want = _outerpoly(PA.lift(x[0, 0], D, P), y)
                except Exception as e: yield case, 'raises %s: %s' % (type(e).__name__, str(e)[:100]); continue
                yield case, (None if close(r.data, want) else 'outer differs from the truncated outer product')
        # ---- inv / solve / det / logdet / trace
        for n in (1, 2, 3, 4):
            for pivot in (False, True, 'cyclic'):
                Ad = poly(rng, D, P, (n, n), base=lambda p: wellcond(rng, n, p, pivot))
                case = {'fn': 'inv', 'n': n, 'pivot': pivot, 'D': D, 'P': P}
                try: r = a.inv(U(Ad.copy()))
                except Exception as e: yield case, 'raises %s' % type(e).__name__
                else:
                    yield case, (None if close(PA.matmul(Ad, r.data), ident(D, P, n)) and close(PA.matmul(r.data, Ad), ident(D, P, n)) else 'A(t) inv(A)(t) != I mod t^D')
                for K in (1, 2):
                    B = poly(rng, D, P, (n, K))
                    for kinds in ('UU', 'CU', 'UC'):
                        case = {'fn': 'solve', 'kinds': kinds, 'n': n, 'K': K, 'pivot': pivot, 'D': D, 'P': P}
                        try:
                            if kinds == 'UU': X = a.solve(U(Ad.copy()), U(B.copy())); res = PA.matmul(Ad, X.data); rhs = B
                            elif kinds == 'CU': X = a.solve(Ad[0, 0].copy(), U(B.copy())); res = PA.matmul(PA.lift(Ad[0, 0], D, P), X.data); rhs = B
                            else:
                                Ad1 = Ad.copy()
                                X = a.solve(U(Ad1), B[0, 0].copy()); res = PA.matmul(Ad, X.data); rhs = PA.lift(B[0, 0], D, P)
                        except Exception as e: yield case, 'raises %s: %s' % (type(e).__name__, str(e)[:100]); continue
                        yield case, (None if close(res, rhs) else 'A(t) X(t) != B(t) mod t^D')
                case = {'fn': 'det', 'n': n, 'pivot': pivot, 'D': D, 'P': P}
                try: r = a.det(U(Ad.copy()))
                except Exception as e: yield case, 'raises %s' % type(e).__name__
                else: yield case, (None if close(r.data, _detpoly(Ad)) else 'det differs from the determinant expanded in truncated polynomial arithmetic')
                case = {'fn': 'trace', 'n': n, 'D': D, 'P': P}
                r = a.trace(U(Ad.copy())); yield case, (None if close(r.data, numpy.trace(Ad, axis1=2, axis2=3)) else 'trace differs')
            Sd = poly(rng, D, P, (n, n)); Sd = Sd + numpy.swapaxes(Sd, 2, 3)
            for p in range(P): Sd[0, p] = Sd[0, p].dot(Sd[0, p].T) + 2 * numpy.eye(n)
            case = {'fn': 'logdet', 'n': n, 'D': D, 'P': P}
            try: r = a.logdet(U(Sd.copy()))
            except Exception as e: yield case, 'raises %s' % type(e).__name__
            else: yield case, (None if close(r.data, PA.log(_detpoly(Sd))) else 'logdet differs from log(det) in truncated arithmetic')
        # ---- expm inside the Pade range: compared with the truncated exponential series in independent arithmetic
        for n in (2, 3):
            Ed = poly(rng, D, P, (n, n)) * 0.25
            case = {'fn': 'expm', 'n': n, 'D': D, 'P': P}
            try: r = a.expm(U(Ed.copy()))
            except Exception as e: yield case, 'raises %s: %s' % (type(e).__name__, str(e)[:100]); continue
            S = ident(D, P, n); term = ident(D, P, n)
            for k in range(1, 30):
                term = PA.matmul(term, Ed) / k; S = S + term
            yield case, (None if close(r.data, S, 1e-7) else 'expm differs from the exponential series propagated in truncated arithmetic')


def _dotpoly(x, y):
    D, P = x.shape[:2]
    z0 = numpy.dot(x[0, 0], y[0, 0]); z = numpy.zeros((D, P) + numpy.shape(z0))
    for d in range(D):
        for p in range(P):
            for k in range(d + 1): z[d, p] = z[d, p] + numpy.dot(x[k, p], y[d - k, p])
    return z
def _outerpoly(x, y):
    D, P = x.shape[:2]; z = numpy.zeros((D, P, x.shape[2], y.shape[2]))
    for d in range(D):
        for p in range(P):
            for k in range(d + 1): z[d, p] += numpy.outer(x[k, p], y[d - k, p])
    return z
def _detpoly(Ad):
    n = Ad.shape[2]; D, P = Ad.shape[:2]
    tot = numpy.zeros((D, P))
    for perm in itertools.permutations(range(n)):
        sign = 1
        for i in range(n):
            for j in range(i + 1, n):
                if perm[i] > perm[j]: sign = -sign
        term = numpy.zeros((D, P)); term[0] = 1.0
        for i in range(n): term = PA.mul(term, Ad[:, :, i, perm[i]])
        tot = tot + sign * term
    return tot


def diagpoly(s):
    D, P, n = s.shape; out = numpy.zeros((D, P, n, n), dtype=s.dtype)
    for i in range(n): out[:, :, i, i] = s[:, :, i]
    return out


def c08(rng, tier):
    a = A(); U = a.UTPM; import scipy.linalg
    T = PA.transpose
    DPs = [(1, 1), (3, 2), (5, 1), (7, 1)] if tier == 'quick' else [(1, 1), (2, 1), (4, 2), (6, 2), (8, 1)]          # D >= 6: the order-by-order loops have index arithmetic that only shows late
    for (D, P) in DPs:
        # ---------------- QR (reduced): square, tall, wide
        for (m, n) in ((1, 1), (2, 2), (3, 3), (4, 2), (3, 2), (2, 4)):
            Ad = poly(rng, D, P, (m, n), base=lambda p: rnd_arr(rng, (m, n)) + (numpy.eye(m, n) * (2 + p)))
            case = {'fn': 'qr', 'shape': [m, n], 'D': D, 'P': P}
            try: Q, R = a.qr(U(Ad.copy()))
            except Exception as e: yield case, 'raises %s: %s' % (type(e).__name__, str(e)[:100])
            else:
                k = Q.data.shape[3]
                f = None
                if not close(PA.matmul(Q.data, R.data), Ad): f = 'Q R != A mod t^D'
                elif not close(PA.matmul(T(Q.data), Q.data), ident(D, P, k)): f = 'Q^T Q != I mod t^D'
                elif numpy.abs(numpy.tril(R.data, -1)).max() > 1e-9: f = 'R is not upper triangular'
                else:
                    for p in range(P):
                        q0, r0 = numpy.linalg.qr(Ad[0, p])
                        if not (close(Q.data[0, p], q0) and close(R.data[0, p], r0)): f = 'zeroth coefficient is not the factorization NumPy returns'; break
                yield case, f
        for (m, n) in ((2, 2), (3, 3), (4, 2), (3, 1)):
            Ad = poly(rng, D, P, (m, n), base=lambda p: rnd_arr(rng, (m, n)) + (numpy.eye(m, n) * (2 + p)))
            case = {'fn': 'qr_full', 'shape': [m, n], 'D': D, 'P': P}
            try: Q, R = a.qr_full(U(Ad.copy()))
            except Exception as e: yield case, 'raises %s: %s' % (type(e).__name__, str(e)[:100])
            else:
                f = None
                if Q.data.shape[2:] != (m, m) or R.data.shape[2:] != (m, n): f = 'shapes %s %s' % (Q.data.shape, R.data.shape)
                elif not close(PA.matmul(Q.data, R.data), Ad): f = 'Q R != A mod t^D'
                elif not close(PA.matmul(T(Q.data), Q.data), ident(D, P, m)): f = 'Q^T Q != I mod t^D'
                elif numpy.abs(numpy.tril(R.data, -1)).max() > 1e-9: f = 'R is not upper triangular'
                else:
                    for p in range(P):
                        q0, r0 = scipy.linalg.qr(Ad[0, p])
                        if not (close(Q.data[0, p], q0) and close(R.data[0, p], r0)): f = 'zeroth coefficient is not the factorization SciPy returns'; break
                yield case, f
        # ---------------- Cholesky
        for n in (1, 2, 3, 4):
            Ad = poly(rng, D, P, (n, n)); Ad = Ad + T(Ad)
            for p in range(P): B = rnd_arr(rng, (n, n)); Ad[0, p] = B.dot(B.T) + (1.5 + p) * numpy.eye(n)
            case = {'fn': 'cholesky', 'n': n, 'D': D, 'P': P}
            try: L = a.cholesky(U(Ad.copy()))
            except Exception as e: yield case, 'raises %s: %s' % (type(e).__name__, str(e)[:100])
            else:
                f = None
                if not close(PA.matmul(L.data, T(L.data)), Ad): f = 'L L^T != A mod t^D'
                elif numpy.abs(numpy.triu(L.data, 1)).max() > 1e-9: f = 'L is not lower triangular'
                elif not all(close(L.data[0, p], numpy.linalg.cholesky(Ad[0, p])) for p in range(P)): f = 'zeroth coefficient is not numpy.linalg.cholesky(A_0)'
                yield case, f
        # ---------------- LU
        for n in (1, 2, 3, 4):
            for pivot in (False, True, 'cyclic'):
                Ad = poly(rng, D, P, (n, n), base=lambda p: wellcond(rng, n, p, pivot))
                case = {'fn': 'lu', 'n': n, 'pivot': pivot, 'D': D, 'P': P}
                try: W, L, Uu = a.lu(U(Ad.copy()))
                except Exception as e: yield case, 'raises %s: %s' % (type(e).__name__, str(e)[:100])
                else:
                    f = None
                    if not close(PA.matmul(W.data, PA.matmul(L.data, Uu.data)), Ad): f = 'P L U != A mod t^D'
                    elif numpy.abs(W.data[1:]).max() > 0 if D > 1 else False: f = 'permutation is not constant'
                    elif numpy.abs(numpy.triu(L.data, 1)).max() > 1e-9 or not numpy.allclose(numpy.diagonal(L.data[0], axis1=1, axis2=2), 1) or (D > 1 and numpy.abs(numpy.diagonal(L.data[1:], axis1=2, axis2=3)).max() > 1e-9): f = 'L is not unit lower triangular'
                    elif numpy.abs(numpy.tril(Uu.data, -1)).max() > 1e-9: f = 'U is not upper triangular'
                    else:
                        for p in range(P):
                            w0, l0, u0 = scipy.linalg.lu(Ad[0, p])
                            if not (close(W.data[0, p], w0) and close(L.data[0, p], l0) and close(Uu.data[0, p], u0)): f = 'zeroth coefficient is not scipy.linalg.lu(A_0)'; break
                    yield case, f
        # ---------------- symmetric eigendecomposition: distinct and exactly repeated eigenvalues
        for n in (2, 3, 4):
            for rep in ('distinct', 'repeated'):
                Ad = poly(rng, D, P, (n, n)); Ad = Ad + T(Ad)
                for p in range(P):
                    q0, _ = numpy.linalg.qr(rnd_arr(rng, (n, n)) + 2 * numpy.eye(n))
                    lam = numpy.arange(1., n + 1) + 0.5 * p
                    if rep == 'repeated': lam[1] = lam[0]
                    Ad[0, p] = q0.dot(numpy.diag(lam)).dot(q0.T)
                case = {'fn': 'eigh', 'n': n, 'eigenvalues': rep, 'D': D, 'P': P}
                try: l, Q = a.eigh(U(Ad.copy()))
                except Exception as e: yield case, 'raises %s: %s' % (type(e).__name__, str(e)[:100])
                else:
                    f = None
                    if not close(PA.matmul(Ad, Q.data), PA.matmul(Q.data, diagpoly(l.data)), 1e-7): f = 'A Q != Q diag(lambda) mod t^D'
                    elif not close(PA.matmul(T(Q.data), Q.data), ident(D, P, n), 1e-7): f = 'Q^T Q != I mod t^D'
                    elif not all(numpy.all(numpy.diff(l.data[0, p]) >= -1e-9) for p in range(P)): f = 'lambda_0 not ascending'
                    elif not all(close(l.data[0, p], numpy.linalg.eigvalsh(Ad[0, p]), 1e-8) for p in range(P)): f = 'zeroth eigenvalues differ from numpy.linalg.eigh'
                    yield case, f
        # ---------------- general eigendecomposition (D <= 2)
        if D <= 2:
            for n in (2, 3):
                Ad = poly(rng, D, P, (n, n))
                for p in range(P):
                    V = rnd_arr(rng, (n, n)) + 2 * numpy.eye(n); Ad[0, p] = V.dot(numpy.diag(numpy.arange(1., n + 1) + p)).dot(numpy.linalg.inv(V))
                case = {'fn': 'eig', 'n': n, 'D': D, 'P': P}
                try: l, Q = a.eig(U(Ad.copy()))
                except Exception as e: yield case, 'raises %s: %s' % (type(e).__name__, str(e)[:100])
                else: yield case, (None if close(PA.matmul(Ad.astype(Q.data.dtype), Q.data), PA.matmul(Q.data, diagpoly(l.data)), 1e-7) else 'A Q != Q diag(lambda) mod t^D')
                # complex input (UTPM.eig casts back to real only when NOTHING is lost): complex general spectrum, and complex Hermitian (real spectrum, complex eigenvectors)
                for ckind in ('complex general', 'complex hermitian'):
                    Br = poly(rng, D, P, (n, n)); Bi = poly(rng, D, P, (n, n))
                    if ckind == 'complex hermitian':
                        Ac = (Br + Br.transpose(0, 1, 3, 2)) + 1j * (Bi - Bi.transpose(0, 1, 3, 2))
                        for p in range(P):
                            W, _ = numpy.linalg.qr(rnd_arr(rng, (n, n)) + 1j * rnd_arr(rng, (n, n)) + 2 * numpy.eye(n)); Ac[0, p] = W.dot(numpy.diag(numpy.arange(1., n + 1) + p)).dot(W.conj().T)
                            Ac[0, p] = 0.5 * (Ac[0, p] + Ac[0, p].conj().T)
                    else:
                        Ac = Br + 1j * Bi
                        for p in range(P):
                            V = rnd_arr(rng, (n, n)) + 1j * rnd_arr(rng, (n, n)) + 2 * numpy.eye(n); Ac[0, p] = V.dot(numpy.diag(numpy.arange(1., n + 1) + p + 1j * numpy.arange(n))).dot(numpy.linalg.inv(V))
                    case = {'fn': 'eig', 'input': ckind, 'n': n, 'D': D, 'P': P}
                    try: l, Q = a.eig(U(Ac.copy()))
                    except Exception as e: yield case, 'raises %s: %s' % (type(e).__name__, str(e)[:100])
                    else: yield case, (None if close(PA.matmul(Ac, Q.data.astype(complex)), PA.matmul(Q.data.astype(complex), diagpoly(l.data.astype(complex))), 1e-7) else 'A Q != Q diag(lambda) mod t^D (%s input; Q dtype %s)' % (ckind, Q.data.dtype))
        # ---------------- SVD
        for (m, n) in ((2, 2), (3, 3), (3, 2)):
            Ad = poly(rng, D, P, (m, n))
            for p in range(P):
                u0, _ = numpy.linalg.qr(rnd_arr(rng, (m, m)) + 2 * numpy.eye(m)); v0, _ = numpy.linalg.qr(rnd_arr(rng, (n, n)) + 2 * numpy.eye(n))
                S = numpy.zeros((m, n)); k = min(m, n); S[:k, :k] = numpy.diag(numpy.arange(k, 0, -1.) + 0.5 * p); Ad[0, p] = u0.dot(S).dot(v0.T)
            case = {'fn': 'svd', 'shape': [m, n], 'D': D, 'P': P}
            try: Uu, s, V = a.svd(U(Ad.copy()))
            except Exception as e: yield case, 'raises %s: %s' % (type(e).__name__, str(e)[:100])
            else:
                f = None; k = s.data.shape[2]
                Sd = numpy.zeros((D, P, Uu.data.shape[3], V.data.shape[2]));
                for i in range(k): Sd[:, :, i, i] = s.data[:, :, i]
                if not close(PA.matmul(Uu.data, PA.matmul(Sd, T(V.data))), Ad, 1e-7): f = 'U diag(s) V^T != A mod t^D'
                elif not close(PA.matmul(T(Uu.data), Uu.data), ident(D, P, Uu.data.shape[3]), 1e-7): f = 'U^T U != I'
                elif not close(PA.matmul(T(V.data), V.data), ident(D, P, V.data.shape[3]), 1e-7): f = 'V^T V != I'
                elif not all(numpy.all(numpy.diff(s.data[0, p]) <= 1e-9) and numpy.all(s.data[0, p] >= -1e-12) for p in range(P)): f = 's_0 not descending / negative'
                yield case, f


def c08_scaled(rng, tier):
    """scale covariance: full column rank / positive definiteness do not depend on the scale of A, so the factors of s*A must be the
    scaled factors of A (qr: Q, s R; qr_full likewise; cholesky: sqrt(s) L; lu: P, L, s U) -- relative comparison, which an absolute
    rank or pivot threshold inside a kernel violates for small matrices.  The unscaled factorization is the one decided by c08."""
    a = A(); U = a.UTPM
    def rel(x, y): return x.shape == y.shape and float(numpy.abs(x - y).max()) <= 1e-7 * max(float(numpy.abs(y).max()), 1e-300)
    for (D, P) in ([(3, 2)] if tier == 'quick' else [(2, 1), (4, 2)]):
        for s_ in (1e-9, 1e-11, 1e6):
            for (m, n) in ((2, 2), (3, 3), (4, 2), (2, 4)):
                Ad = poly(rng, D, P, (m, n), base=lambda p: rnd_arr(rng, (m, n)) + (numpy.eye(m, n) * (2 + p)))
                for fn in ('qr',) + (('qr_full',) if m >= n else ()):
                    case = {'fn': fn + '[scaled]', 'shape': [m, n], 'scale': s_, 'D': D, 'P': P}
                    try:
                        Q, R = getattr(a, fn)(U(Ad.copy())); Qs, Rs = getattr(a, fn)(U(s_ * Ad))
                        yield case, (None if rel(Qs.data, Q.data) and rel(Rs.data, s_ * R.data) else '%s(s A) is not (Q, s R) of %s(A) for s = %g' % (fn, fn, s_))
                    except Exception as e: yield case, 'raises %s: %s' % (type(e).__name__, str(e)[:100])
            for n in (2, 3):
                Ad = poly(rng, D, P, (n, n)); Ad = Ad + PA.transpose(Ad)
                for p in range(P): B = rnd_arr(rng, (n, n)); Ad[0, p] = B.dot(B.T) + (1.5 + p) * numpy.eye(n)
                case = {'fn': 'cholesky[scaled]', 'n': n, 'scale': s_, 'D': D, 'P': P}
                try:
                    L = a.cholesky(U(Ad.copy())); Ls = a.cholesky(U(s_ * Ad))
                    yield case, (None if rel(Ls.data, numpy.sqrt(s_) * L.data) else 'cholesky(s A) is not sqrt(s) cholesky(A) for s = %g' % s_)
                except Exception as e: yield case, 'raises %s: %s' % (type(e).__name__, str(e)[:100])
                Ad = poly(rng, D, P, (n, n), base=lambda p: wellcond(rng, n, p, pivot=bool(p % 2)))
                case = {'fn': 'lu[scaled]', 'n': n, 'scale': s_, 'D': D, 'P': P}
                try:
                    r1 = a.lu(U(Ad.copy())); r2 = a.lu(U(s_ * Ad))
                    d1 = [t.data if isinstance(t, U) else numpy.asarray(t) for t in r1]; d2 = [t.data if isinstance(t, U) else numpy.asarray(t) for t in r2]
                    yield case, (None if len(d1) == len(d2) == 3 and rel(d2[0], d1[0]) and rel(d2[1], d1[1]) and rel(d2[2], s_ * d1[2]) else 'lu(s A) is not (P, L, s U) of lu(A) for s = %g' % s_)
                except Exception as e: yield case, 'raises %s: %s' % (type(e).__name__, str(e)[:100])


def c12_factorizations(rng, tier):
    """C12 for the factorizations: the coefficients < D' of the factors computed with D coefficients equal the factors computed from the
    input truncated to D'.  Compared are the uniquely determined quantities: Q, R of qr; L of cholesky; the factors of lu; eigenvalues and
    eigenvectors of eigh for distinct eigenvalues; for an exactly repeated eigenvalue (eigenvectors not unique across D) the eigenvalues and
    the invariant Q diag(lambda^2) Q^T.  D = 7, D' in {3, 6}: order-by-order loops have index arithmetic that only shows late."""
    a = A(); U = a.UTPM; T = PA.transpose
    D = 7; P = 2 if tier != 'quick' else 1
    def outs(name, Ad):
        if name == 'qr': Q, R = a.qr(U(Ad.copy())); return [Q.data, R.data]
        if name == 'cholesky': return [a.cholesky(U(Ad.copy())).data]
        if name == 'lu': return [t.data for t in a.lu(U(Ad.copy())) if isinstance(t, U)]
        l, Q = a.eigh(U(Ad.copy()))
        if name == 'eigh[distinct]': return [l.data, Q.data]
        return [l.data, PA.matmul(PA.matmul(Q.data, diagpoly(PA.mul(l.data, l.data))), T(Q.data))]
    for name in ('qr', 'cholesky', 'lu', 'eigh[distinct]', 'eigh[repeated]'):
        for n in (2, 3, 4):
            if name == 'qr': Ad = poly(rng, D, P, (n + 1, n), base=lambda p: rnd_arr(rng, (n + 1, n)) + numpy.eye(n + 1, n) * (2 + p))
            elif name == 'lu': Ad = poly(rng, D, P, (n, n), base=lambda p: wellcond(rng, n, p, pivot=bool(p % 2)))
            else:
                Ad = poly(rng, D, P, (n, n)); Ad = Ad + T(Ad)
                for p in range(P):
                    if name == 'cholesky': B = rnd_arr(rng, (n, n)); Ad[0, p] = B.dot(B.T) + (1.5 + p) * numpy.eye(n)
                    else:
                        q0, _ = numpy.linalg.qr(rnd_arr(rng, (n, n)) + 2 * numpy.eye(n)); lam = numpy.arange(1., n + 1) + 0.5 * p
                        if name == 'eigh[repeated]': lam[1] = lam[0]
                        Ad[0, p] = q0.dot(numpy.diag(lam)).dot(q0.T)
            case = {'fn': name, 'n': n, 'D': D, 'P': P}
            try:
                full = outs(name, Ad); f = None
                for Dp in (3, 6):
                    part = outs(name, Ad[:Dp])
                    for k_, (u, v) in enumerate(zip(full, part)):
                        if not close(u[:Dp], v, 1e-7): f = 'output %d: coefficients < %d computed with D = %d differ from those computed with D = %d (max %.3g)' % (k_, Dp, D, Dp, float(numpy.abs(u[:Dp] - v).max())); break
                    if f: break
                yield case, f
            except Exception as e: yield case, 'raises %s: %s' % (type(e).__name__, str(e)[:100])


c07_all = with_patterns(c07)
c08_all = with_patterns(c08)
