"""Table of the public overloaded operations with (i) how to call them on UTPM / ndarray, (ii) the NumPy/SciPy function
that defines their zeroth coefficient, (iii) input generators.  Serves the bounded parts of C01, C07, C10-C14."""
import numpy, math
from lib import native


def A(): return native.algopy()


class Op:
    def __init__(self, name, f, npf=None, shapes=((), (2,), (2, 2)), dom=(0.3, 0.9), kind='elementwise', mp=None, args=(), nin=1, tol=1e-9, cplx=False, slicewise=False, view=False, only=None):
        self.name, self.f, self.npf, self.shapes, self.dom, self.kind, self.mp, self.args, self.nin = name, f, npf, shapes, dom, kind, mp, args, nin
        self.tol, self.cplx, self.slicewise, self.view, self.only = tol, cplx, slicewise, view, only


def table():
    a = A(); import scipy.special as ss, scipy.linalg
    try: import mpmath as mp
    except ImportError: mp = None
    T = []
    def el(name, npf, dom=(0.3, 0.9), mpf=None, f=None, **kw):
        T.append(Op(name, f or (lambda x, _n=name: getattr(a, _n)(x)), npf, dom=dom, mp=mpf, **kw))
    sp = a.special
    el('exp', numpy.exp, (-1, 1), mp and mp.exp); el('expm1', numpy.expm1, (-1, 1), mp and mp.expm1); el('log', numpy.log, (0.3, 2), mp and mp.log)
    el('log1p', numpy.log1p, (-0.5, 1), mp and mp.log1p); el('sqrt', numpy.sqrt, (0.3, 2), mp and mp.sqrt)
    el('sin', numpy.sin, (-1, 1), mp and mp.sin); el('cos', numpy.cos, (-1, 1), mp and mp.cos); el('tan', numpy.tan, (-1, 1), mp and mp.tan)
    el('arcsin', numpy.arcsin, (-0.8, 0.8), mp and mp.asin); el('arccos', numpy.arccos, (-0.8, 0.8), mp and mp.acos); el('arctan', numpy.arctan, (-1, 1), mp and mp.atan)
    el('sinh', numpy.sinh, (-1, 1), mp and mp.sinh); el('cosh', numpy.cosh, (-1, 1), mp and mp.cosh); el('tanh', numpy.tanh, (-1, 1), mp and mp.tanh)
    el('reciprocal', numpy.reciprocal, (0.4, 2), mp and (lambda v: 1 / v)); el('square', numpy.square, (-1, 1), mp and (lambda v: v * v))
    el('negative', numpy.negative, (-1, 1), mp and (lambda v: -v)); el('absolute', numpy.absolute, (0.2, 1), mp and (lambda v: abs(v)))
    el('absolute[neg]', numpy.absolute, (-1, -0.2), mp and (lambda v: -v), f=lambda x: a.absolute(x)); el('sign', numpy.sign, (0.2, 1), mp and (lambda v: v * 0 + 1))
    el('sign[neg]', numpy.sign, (-1, -0.2), mp and (lambda v: v * 0 - 1), f=lambda x: a.sign(x))
    el('erf', ss.erf, (-1, 1), mp and mp.erf, f=lambda x: sp.erf(x)); el('erfi', ss.erfi, (-1, 1), mp and mp.erfi, f=lambda x: sp.erfi(x))
    el('dawsn', ss.dawsn, (-1, 1), mp and (lambda v: mp.sqrt(mp.pi) / 2 * mp.exp(-v * v) * mp.erfi(v)), f=lambda x: sp.dawsn(x))
    el('logit', ss.logit, (0.2, 0.8), mp and (lambda v: mp.log(v / (1 - v))), f=lambda x: sp.logit(x)); el('expit', ss.expit, (-1, 1), mp and (lambda v: 1 / (1 + mp.exp(-v))), f=lambda x: sp.expit(x))
    el('gammaln', ss.gammaln, (0.5, 3), mp and mp.loggamma, f=lambda x: sp.gammaln(x)); el('psi', ss.psi, (0.5, 3), mp and mp.digamma, f=lambda x: sp.psi(x))
    el('polygamma[1]', lambda v: ss.polygamma(1, v), (0.5, 3), mp and (lambda v: mp.psi(1, v)), f=lambda x: sp.polygamma(1, x))
    el('polygamma[2]', lambda v: ss.polygamma(2, v), (0.5, 3), mp and (lambda v: mp.psi(2, v)), f=lambda x: sp.polygamma(2, x))
    el('hyperu[1.5,0.5]', lambda v: ss.hyperu(1.5, 0.5, v), (0.5, 2), mp and (lambda v: mp.hyperu(1.5, 0.5, v)), f=lambda x: sp.hyperu(1.5, 0.5, x), tol=1e-7)
    el('pow[3]', lambda v: v ** 3, (-1, 1), mp and (lambda v: v ** 3), f=lambda x: x ** 3); el('pow[2.5]', lambda v: v ** 2.5, (0.3, 2), mp and (lambda v: v ** 2.5), f=lambda x: x ** 2.5)
    el('pow[-2]', lambda v: v ** -2.0, (0.4, 2), mp and (lambda v: v ** -2), f=lambda x: x ** (-2)); el('rpow[2]', lambda v: 2.0 ** v, (-1, 1), mp and (lambda v: mp.mpf(2) ** v), f=lambda x: 2.0 ** x)
    # negative base points: integer-valued exponents (negative ints, integer-valued floats, numpy integers) are smooth there
    el('pow[-2][neg]', lambda v: v ** -2.0, (-2, -0.4), mp and (lambda v: v ** -2), f=lambda x: x ** (-2)); el('pow[3.0][neg]', lambda v: v ** 3.0, (-2, -0.4), mp and (lambda v: v ** 3), f=lambda x: x ** 3.0)
    el('pow[int64 -1][neg]', lambda v: v ** -1.0, (-2, -0.4), mp and (lambda v: 1 / v), f=lambda x: x ** numpy.int64(-1)); el('pow[-2.0][neg]', lambda v: v ** -2.0, (-2, -0.4), mp and (lambda v: v ** -2), f=lambda x: x ** -2.0)
    el('pow[fn,3]', lambda v: numpy.power(v, 3), (-1, 1), mp and (lambda v: v ** 3), f=lambda x: a.pow(x, 3)); el('pow[fn,2.5]', lambda v: numpy.power(v, 2.5), (0.3, 2), mp and (lambda v: v ** 2.5), f=lambda x: a.pow(x, 2.5))
    el('clip[inside]', lambda v: numpy.clip(v, 0.1, 0.9), (0.3, 0.7), mp and (lambda v: v), f=lambda x: sp.botched_clip(0.1, 0.9, x))
    el('clip[above]', lambda v: numpy.clip(v, 0.1, 0.2), (0.3, 0.7), mp and (lambda v: v * 0 + mp.mpf('0.2')), f=lambda x: sp.botched_clip(0.1, 0.2, x))
    # binary element-wise
    T.append(Op('minimum', lambda x, y: a.minimum(x, y), numpy.minimum, nin=2, shapes=((), (2,)), dom=(-1, 1), kind='elementwise2'))
    T.append(Op('maximum', lambda x, y: a.maximum(x, y), numpy.maximum, nin=2, shapes=((), (2,)), dom=(-1, 1), kind='elementwise2'))
    # slice-wise / shape operations
    def sw(name, f, npf, shapes, **kw): T.append(Op(name, f, npf, shapes=shapes, dom=(-1, 1), kind='shape', slicewise=True, **kw))
    for sl in (0, -1, slice(1, None), slice(None, None, -1), slice(None, None, 2), Ellipsis, numpy.newaxis, (Ellipsis, 0), (slice(0, 2), numpy.newaxis)):
        sw('getitem[%s]' % (sl,), lambda x, sl=sl: x[sl], lambda v, sl=sl: v[sl], ((3,), (3, 2)), view=True)
    # advanced indexing (copies in NumPy): integer list, boolean mask, paired index arrays
    sw('getitem[[0,2]]', lambda x: x[[0, 2]], lambda v: v[[0, 2]], ((3,), (3, 2)), view=True)
    sw('getitem[mask]', lambda x: x[numpy.array([True, False, True])], lambda v: v[numpy.array([True, False, True])], ((3,), (3, 2)), view=True)
    sw('getitem[ia,ja]', lambda x: x[numpy.array([0, 2]), numpy.array([1, 0])], lambda v: v[numpy.array([0, 2]), numpy.array([1, 0])], ((3, 2),), view=True)
    sw('getitem[1,::-1]', lambda x: x[1, ::-1], lambda v: v[1, ::-1], ((3, 2),), view=True)
    sw('getitem[-2:,1]', lambda x: x[-2:, 1], lambda v: v[-2:, 1], ((3, 2),), view=True)
    sw('transpose', lambda x: x.T, lambda v: v.T, ((3, 2), (2, 2, 3)), view=True)
    sw('transpose()', lambda x: a.transpose(x), numpy.transpose, ((3, 2),), view=True)
    sw('reshape[6]', lambda x: a.reshape(x, (6,)), lambda v: v.reshape((6,)), ((3, 2), (6,), (1, 6)))
    sw('reshape[2,3]', lambda x: x.reshape((2, 3)), lambda v: v.reshape((2, 3)), ((3, 2), (6,)))
    # the new shape as NumPy accepts it: a plain int, an integer taken from an array (numpy.integer), a list
    sw('reshape[int 6]', lambda x: a.reshape(x, 6), lambda v: v.reshape(6), ((3, 2),)); sw('reshape[numpy.int64 6]', lambda x: x.reshape(numpy.int64(6)), lambda v: v.reshape(numpy.int64(6)), ((3, 2), (6,)))
    sw('reshape[list 2,3]', lambda x: a.reshape(x, [2, 3]), lambda v: v.reshape([2, 3]), ((3, 2), (6,))); sw('reshape[numpy ints 2,3]', lambda x: x.reshape((numpy.int64(2), numpy.int32(3))), lambda v: v.reshape((2, 3)), ((6,),))
    for ax in (None, 0, 1, -1, -2):
        sw('sum[axis=%s]' % ax, lambda x, ax=ax: a.sum(x, axis=ax), lambda v, ax=ax: numpy.sum(v, axis=ax), ((3, 2), (2, 2, 3)))
    sw('sum[1d]', lambda x: a.sum(x), numpy.sum, ((3,),))
    for reps in (2, (2,), (1, 2), (2, 1), (2, 1, 2), (1, 1, 1, 2)):          # fewer, as many and more repetitions than dimensions
        sw('tile[%s]' % (reps,), lambda x, reps=reps: a.tile(x, reps), lambda v, reps=reps: numpy.tile(v, reps), ((), (3,), (3, 2)))
    sw('diag[vec]', lambda x: a.diag(x), numpy.diag, ((3,),)); sw('diag[mat]', lambda x: a.diag(x), numpy.diag, ((3, 3), (3, 2), (2, 3)))
    for k_ in (1, -1, 2):
        sw('diag[vec,k=%d]' % k_, lambda x, k_=k_: a.diag(x, k=k_), lambda v, k_=k_: numpy.diag(v, k=k_), ((3,),))
        sw('diag[mat,k=%d]' % k_, lambda x, k_=k_: a.diag(x, k=k_), lambda v, k_=k_: numpy.diag(v, k=k_), ((3, 3), (3, 4)))
    for k_ in (1, -1):
        sw('triu[k=%d]' % k_, lambda x, k_=k_: a.triu(x, k=k_), lambda v, k_=k_: numpy.triu(v, k=k_), ((3, 3), (3, 2)))
        sw('tril[k=%d]' % k_, lambda x, k_=k_: a.tril(x, k=k_), lambda v, k_=k_: numpy.tril(v, k=k_), ((3, 3), (2, 3)))
    sw('reshape[-1]', lambda x: x.reshape((-1,)), lambda v: v.reshape((-1,)), ((3, 2),)); sw('reshape[2,-1]', lambda x: a.reshape(x, (2, -1)), lambda v: v.reshape((2, -1)), ((3, 2),))
    sw('triu', lambda x: a.triu(x), numpy.triu, ((3, 3),)); sw('tril', lambda x: a.tril(x), numpy.tril, ((3, 3),))
    sw('trace', lambda x: a.trace(x), numpy.trace, ((3, 3), (2, 3), (4, 2), (5, 2), (6, 3)))          # tall by two and more rows: a strided diagonal walk wraps around there
    sw('neg', lambda x: -x, lambda v: -v, ((3,), (3, 2)))
    sw('conjugate', lambda x: a.conjugate(x), numpy.conjugate, ((3,),), cplx=True)
    sw('real', lambda x: a.real(x), numpy.real, ((3,),), cplx=True); sw('imag', lambda x: a.imag(x), numpy.imag, ((3,),), cplx=True)
    sw('fft', lambda x: a.fft.fft(x), numpy.fft.fft, ((4,), (2, 4))); sw('ifft', lambda x: a.fft.ifft(x), numpy.fft.ifft, ((4,), (2, 4)))
    sw('fft[axis=0]', lambda x: a.fft.fft(x, axis=0), lambda v: numpy.fft.fft(v, axis=0), ((2, 4),)); sw('fft[n=3]', lambda x: a.fft.fft(x, n=3), lambda v: numpy.fft.fft(v, n=3), ((4,),))
    sw('zeros_like', lambda x: a.zeros_like(x), numpy.zeros_like, ((3,), (3, 2))); sw('ones_like', lambda x: a.ones_like(x), numpy.ones_like, ((3,), (3, 2)))
    sw('symvec', lambda x: a.symvec(x + x.T), lambda v: None, ((3, 3),))
    # operations that only take part in the operand-frame check (their value semantics are not claimed by a property)
    T.append(Op('floordiv[0/0]', lambda x, y: x // y, None, nin=2, shapes=((),), dom=(0, 0), kind='frame-only', only=('C14',)))
    T.append(Op('floordiv', lambda x, y: x // y, None, nin=2, shapes=((), (2,)), dom=(0.5, 1), kind='frame-only', only=('C14',)))
    # linear algebra (zeroth coefficient = NumPy on the zeroth coefficient)
    def la(name, f, npf, shapes, nin=1, **kw): T.append(Op(name, f, npf, shapes=shapes, dom=(-1, 1), kind='linalg', nin=nin, **kw))
    la('dot[M,M]', lambda x, y: a.dot(x, y), numpy.dot, ((2, 3), (3, 2)), nin=2); la('dot[M,v]', lambda x, y: a.dot(x, y), numpy.dot, ((2, 3), (3,)), nin=2)
    la('dot[v,M]', lambda x, y: a.dot(x, y), numpy.dot, ((3,), (3, 2)), nin=2); la('dot[v,v]', lambda x, y: a.dot(x, y), numpy.dot, ((3,), (3,)), nin=2)
    la('outer', lambda x, y: a.outer(x, y), numpy.outer, ((3,), (2,)), nin=2)
    la('inv', lambda x: a.inv(x), numpy.linalg.inv, ((3, 3),)); la('solve', lambda x, y: a.solve(x, y), numpy.linalg.solve, ((3, 3), (3, 2)), nin=2)
    la('det', lambda x: a.det(x), numpy.linalg.det, ((3, 3),)); la('logdet', lambda x: a.logdet(x), lambda v: numpy.log(numpy.linalg.det(v)), ((3, 3),))
    la('trace', lambda x: a.trace(x), numpy.trace, ((3, 3), (5, 2)))
    # selections decided by the zeroth coefficient of EACH direction (gen_input draws a different base point per direction)
    la('max', lambda x: a.UTPM.max(x), numpy.max, ((3,), (5,)), only=('C11', 'C14'))          # UTPM.max is a class method, not a dispatching function: outside C10's plain-array clause
    return T


def gen_input(rng, D, P, shp, dom, cplx=False, kind=None, name=''):
    n = int(numpy.prod(shp, dtype=int))
    x = numpy.array([native.rnd(rng, -1, 1, 8) for _ in range(D * P * n)]).reshape((D, P) + tuple(shp))
    x[0] = numpy.array([native.rnd(rng, dom[0], dom[1], 32) for _ in range(P * n)]).reshape((P,) + tuple(shp))
    if kind == 'linalg' and len(shp) == 2 and shp[0] == shp[1] and name in ('inv', 'solve', 'det', 'logdet'):
        for p in range(P): x[0, p] = x[0, p] + (2.0 + 0.5 * p) * numpy.eye(shp[0])[::-1 if (p % 2 and name != 'logdet') else 1] if name != 'logdet' else x[0, p].dot(x[0, p].T) + 2 * numpy.eye(shp[0])
    if cplx: x = x + 1j * numpy.array([native.rnd(rng, -1, 1, 8) for _ in range(D * P * n)]).reshape(x.shape)
    return x
