"""Spec interpreter (DESIGN 4.3): the defining recurrences of the spec functions over plain Python numbers.

Independent oracle: shares no code with algopy and none with the symbolic executor.  Works with float, complex,
fractions.Fraction (ring operations only) and mpmath.mpf/mpc numbers; base-point values of transcendental functions
come from the `fn` table (math/cmath by default, mpmath for the high-precision audit)."""
import math, cmath
from fractions import Fraction


class Fn:
    """base-point evaluation of elementary functions"""
    def __init__(self, mod='auto'): self.mod = mod
    def __getattr__(self, name):
        def f(v):
            if isinstance(v, complex): return getattr(cmath, name)(v)
            try:
                import mpmath
                if isinstance(v, (mpmath.mpf, mpmath.mpc)):
                    nm = {'arcsin': 'asin', 'arccos': 'acos', 'arctan': 'atan'}.get(name, name)
                    return getattr(mpmath, nm)(v)
            except ImportError: pass
            nm = {'arcsin': 'asin', 'arccos': 'acos', 'arctan': 'atan'}.get(name, name)
            return getattr(math, nm)(v)
        return f
FN = Fn()


def conv(x, y):
    D = len(x); return [sum(x[k] * y[d - k] for k in range(d + 1)) for d in range(D)]

def add(x, y): return [a + b for a, b in zip(x, y)]
def sub(x, y): return [a - b for a, b in zip(x, y)]
def scale(x, c): return [a * c for a in x]
def const_like(x, c):
    z = type(x[0])(0) if not isinstance(x[0], (int,)) else 0
    return [c] + [z * 0 for _ in x[1:]]

def quot(x, y):
    D = len(x); z = []
    for d in range(D):
        z.append((x[d] - sum(z[k] * y[d - k] for k in range(d))) / y[0])
    return z

def recip(y):
    one = y[0] / y[0]
    return quot([one] + [one * 0] * (len(y) - 1), y)

def sqrt(x, fn=FN):
    D = len(x); y = [fn.sqrt(x[0])]
    for n in range(1, D):
        y.append((x[n] - sum(y[k] * y[n - k] for k in range(1, n))) / (2 * y[0]))
    return y

def exp(x, fn=FN):
    D = len(x); y = [fn.exp(x[0])]
    for n in range(1, D): y.append(sum(k * x[k] * y[n - k] for k in range(1, n + 1)) / n)
    return y

def log(x, fn=FN):
    D = len(x); y = [fn.log(x[0])]
    for n in range(1, D): y.append((n * x[n] - sum(k * y[k] * x[n - k] for k in range(1, n))) / (n * x[0]))
    return y

def _pair(x, s0, c0, sign):
    D = len(x); s, c = [s0], [c0]
    for n in range(1, D):
        s.append(sum(k * x[k] * c[n - k] for k in range(1, n + 1)) / n)
        c.append(sign * sum(k * x[k] * s[n - k] for k in range(1, n + 1)) / n)
    return s, c
def sincos(x, fn=FN): return _pair(x, fn.sin(x[0]), fn.cos(x[0]), -1)
def sinhcosh(x, fn=FN): return _pair(x, fn.sinh(x[0]), fn.cosh(x[0]), 1)

def tansec2(x, fn=FN):
    D = len(x); y = [fn.tan(x[0])]; z = [1 / (fn.cos(x[0]) * fn.cos(x[0]))]
    for n in range(1, D):
        y.append(sum(k * x[k] * z[n - k] for k in range(1, n + 1)) / n)
        z.append(2 * sum(k * y[k] * y[n - k] for k in range(1, n + 1)) / n)
    return y, z

def tanhsech2(x, fn=FN):
    D = len(x); t = fn.tanh(x[0]); y = [t]; z = [1 - t * t]
    for n in range(1, D):
        y.append(sum(k * x[k] * z[n - k] for k in range(1, n + 1)) / n)
        z.append(-2 * sum(k * y[k] * y[n - k] for k in range(1, n + 1)) / n)
    return y, z

def _arc(x, y0, z0, zrule):
    D = len(x); y, z = [y0], [z0]
    for n in range(1, D):
        y.append((n * x[n] - sum(k * y[k] * z[n - k] for k in range(1, n))) / (n * z[0]))
        z.append(zrule(x, y, n) / n)
    return y, z
def arcsin(x, fn=FN):
    y0 = fn.arcsin(x[0]); return _arc(x, y0, fn.cos(y0), lambda x, y, n: -sum(k * y[k] * x[n - k] for k in range(1, n + 1)))
def arccos(x, fn=FN):
    y0 = fn.arccos(x[0]); return _arc(x, y0, -fn.sin(y0), lambda x, y, n: -sum(k * y[k] * x[n - k] for k in range(1, n + 1)))
def arctan(x, fn=FN):
    return _arc(x, fn.arctan(x[0]), 1 + x[0] * x[0], lambda x, y, n: 2 * sum(k * x[k] * x[n - k] for k in range(1, n + 1)))

def powr(x, r):
    D = len(x); y = [x[0] ** r]
    for n in range(1, D):
        y.append((r * sum(k * x[k] * y[n - k] for k in range(1, n + 1)) - sum(k * y[k] * x[n - k] for k in range(1, n))) / (n * x[0]))
    return y

def pown(x, m):
    one = x[0] * 0 + 1
    if m == 0: return [one] + [one * 0] * (len(x) - 1)
    y = list(x)
    for _ in range(m - 1): y = conv(x, y)
    return y

def bfwf(x, fp, f0):
    D = len(x); y = [f0]
    for n in range(1, D): y.append(sum(k * x[k] * fp[n - k] for k in range(1, n + 1)) / n)
    return y

def compose_faa(x, derivs):
    """Faa di Bruno:  y_k = sum_{n=0}^{k} f^(n)(x0)/n! * [t^k](x(t)-x0)^n ;  derivs[n] = f^(n)(x0)"""
    D = len(x); h = [x[0] * 0] + list(x[1:]); y = [derivs[0]] + [x[0] * 0] * (D - 1)
    pw = [x[0] * 0 + 1] + [x[0] * 0] * (D - 1)
    for n in range(1, D):
        pw = conv(pw, h)
        for k in range(D): y[k] = y[k] + derivs[n] * pw[k] / math.factorial(n)
    return y

def ode_solution(a, b, c, u, v0):
    """G&W Prop 13.1:  b(u) v' - a(u) v = c(u):  coefficients v with  sum_{j=1}^k b[k-j] j v[j] = sum_{j=1}^{k} (c[k-j]+e[k-j]) j u[j],
    e = a (*) v"""
    D = len(u); v = [v0]
    for k in range(1, D):
        e = [sum(a[j] * v[m - j] for j in range(m + 1)) for m in range(k)]
        rhs = sum((c[k - j] + e[k - j]) * j * u[j] for j in range(1, k + 1)) - sum(b[k - j] * j * v[j] for j in range(1, k))
        v.append(rhs / (b[0] * k))
    return v
