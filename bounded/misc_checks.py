"""Further run-time contracts: comparisons (C10), item assignment / constructors (C13), tracer seeds and inputs (C14),
program-level direction / degree independence incl. the reverse sweep (C11, C12)."""
import operator, numpy, random
from lib import native
from . import progs, tracer_checks as T, optable


def comparisons(rng, tier):
    a = native.algopy(); U = a.UTPM
    ops = [('<', operator.lt), ('<=', operator.le), ('>', operator.gt), ('>=', operator.ge), ('==', operator.eq)]
    for (D, P) in ((1, 1), (3, 2)):
        for shp in ((), (2,), (2, 2)):
            for trial in range(6 if tier == 'quick' else 30):
                x = optable.gen_input(rng, D, P, shp, (-1, 1)); y = optable.gen_input(rng, D, P, shp, (-1, 1))
                if trial % 3 == 0: y[0] = x[0]                       # equal zeroth coefficients, different higher ones
                if trial % 3 == 1: y[0] = x[0] + 0.25                # uniformly larger
                for nm, op in ops:
                    for other_kind in ('UTPM', 'scalar', 'ndarray'):
                        other = U(y.copy()) if other_kind == 'UTPM' else (0.1 if other_kind == 'scalar' else y[0, 0].copy())
                        ref = y[0] if other_kind == 'UTPM' else (0.1 if other_kind == 'scalar' else y[0, 0])
                        case = {'cmp': nm, 'other': other_kind, 'D': D, 'P': P, 'shape': list(shp), 'x0': x[0].tolist(), 'y0': numpy.asarray(ref).tolist()}
                        try: got = op(U(x.copy()), other)
                        except Exception as e: yield case, 'raises %s' % type(e).__name__; continue
                        want = bool(numpy.all(op(x[0], ref)))
                        yield case, (None if (isinstance(got, (bool, numpy.bool_)) and bool(got) == want) else 'comparison returned %r, NumPy comparison of zeroth coefficients over all elements gives %r' % (got, want))
                # reflected forms (constant on the left, incl. a NumPy scalar and an array), != and a broadcast pair
                extra = [('0.1 < x', lambda: 0.1 < U(x.copy()), lambda: numpy.all(0.1 < x[0])), ('float64 >= x', lambda: numpy.float64(0.1) >= U(x.copy()), lambda: numpy.all(0.1 >= x[0])),
                         ('array <= x', lambda: y[0, 0].copy() <= U(x.copy()), lambda: numpy.all(y[0, 0] <= x[0])), ('x > int', lambda: U(x.copy()) > 0, lambda: numpy.all(x[0] > 0))]
                # (`!=` is not overloaded by the library: Python derives it as `not (x == y)`; it is not part of the claim and not enumerated)
                for nm2, f_, w_ in extra:
                    case = {'cmp': nm2, 'other': 'reflected/broadcast', 'D': D, 'P': P, 'shape': list(shp), 'x0': x[0].tolist(), 'y0': y[0].tolist()}
                    try: got = f_()
                    except Exception as e: yield case, 'raises %s' % type(e).__name__; continue
                    want = bool(w_())
                    yield case, (None if (isinstance(got, (bool, numpy.bool_)) and bool(got) == want) else 'comparison returned %r, NumPy comparison of zeroth coefficients over all elements gives %r' % (got if numpy.size(got) < 5 else type(got).__name__, want))


def setitem(rng, tier):
    a = native.algopy(); U = a.UTPM
    idxs = [0, -1, slice(1, None), slice(None, None, 2), Ellipsis, (0, 1), (slice(None), 0), (1, slice(None, None, -1)), (Ellipsis, -1), numpy.int64(1), (slice(0, 2), slice(1, 3)),
            [0, 2], numpy.array([True, False, True]), (slice(None), [2, 0]), -2, slice(-2, None), (numpy.newaxis, 0)]
    for (D, P) in ((1, 1), (3, 2)):
        for shp in ((3,), (3, 3)):
            for sl in idxs:
                try: tshape = numpy.empty(shp)[sl].shape
                except IndexError: continue
                x = optable.gen_input(rng, D, P, shp, (-1, 1))
                for kind in ('UTPM', 'UTPM-broadcast', 'scalar', 'ndarray', 'int'):
                    if kind == 'UTPM': v = optable.gen_input(rng, D, P, tshape, (-1, 1)); rhs = U(v.copy())
                    elif kind == 'UTPM-broadcast':
                        if not tshape: continue
                        v = optable.gen_input(rng, D, P, tshape[-1:], (-1, 1)); rhs = U(v.copy())
                    elif kind == 'scalar': v = 2.5; rhs = 2.5
                    elif kind == 'int': v = 3; rhs = 3
                    else:
                        v = numpy.arange(1., 1 + int(numpy.prod(tshape, dtype=int))).reshape(tshape) / 2; rhs = v.copy()
                    case = {'index': str(sl), 'rhs': kind, 'D': D, 'P': P, 'shape': list(shp)}
                    u = U(x.copy())
                    try: u[sl] = rhs
                    except Exception as e: yield case, 'raises %s: %s' % (type(e).__name__, str(e)[:80]); continue
                    want = x.copy()
                    for d in range(D):
                        for p in range(P):
                            if kind.startswith('UTPM'): want[d, p][sl] = v[d, p]
                            else: want[d, p][sl] = v if d == 0 else 0.0
                    yield case, (None if numpy.array_equal(u.data, want) else 'item assignment differs from the NumPy assignment on every coefficient slice (constants: zeroth coefficient set, higher ones cleared)')
                    if kind == 'UTPM' and not numpy.array_equal(rhs.data, v): yield case, 'right-hand side modified by the assignment'
    # the right-hand side is itself a view of the target (NumPy copies as if through a temporary, overlapping or not)
    T_ = lambda a_: a_.T
    selfcases = [((4,), slice(1, None), lambda u: u[:-1]), ((4,), slice(None, None, -1), lambda u: u), ((4,), slice(0, 2), lambda u: u[2:4]),
                 ((4,), slice(1, 3), lambda u: u[1:3]), ((6,), slice(2, 5), lambda u: u[0:6:2]),
                 ((3, 3), Ellipsis, T_), ((3, 3), (slice(None), slice(None)), lambda u: u[1]), ((3, 3), 0, lambda u: u[:, 0]), ((3, 3), (slice(None), 1), lambda u: u[2])]
    for (D, P) in ((1, 1), (3, 2)):
        for shp, sl, src in selfcases:
            x = optable.gen_input(rng, D, P, shp, (-1, 1)); u = U(x.copy())
            case = {'index': str(sl), 'rhs': 'view of the target itself', 'D': D, 'P': P, 'shape': list(shp)}
            try: u[sl] = src(u)
            except Exception as e: yield case, 'raises %s: %s' % (type(e).__name__, str(e)[:80]); continue
            want = x.copy()
            for d in range(D):
                for p in range(P): want[d, p][sl] = src(x[d, p].copy())
            yield case, (None if numpy.array_equal(u.data, want) else 'assigning a view of the polynomial into itself differs from NumPy (which copies as if through a temporary)')
    # constructors
    for (D, P) in ((1, 1), (3, 2)):
        x = U(optable.gen_input(rng, D, P, (2,), (-1, 1)))
        for nm, f, npf in (('zeros', a.zeros, numpy.zeros), ('ones', a.ones, numpy.ones)):
            for shape in (3, (2, 3), ()):
                case = {'ctor': nm, 'shape': str(shape), 'D': D, 'P': P}
                try: z = f(shape, dtype=x)
                except Exception as e: yield case, 'raises %s' % type(e).__name__; continue
                ok = isinstance(z, U) and z.data.shape == (D, P) + (shape if isinstance(shape, tuple) else (shape,)) and numpy.array_equal(z.data[0, 0], npf(shape)) and not z.data[1:].any()
                yield case, (None if ok else 'constructor with a Taylor-polynomial dtype does not give the NumPy array in the zeroth coefficient and zeros above')
                yield {'ctor': nm + '[float]', 'shape': str(shape)}, (None if numpy.array_equal(f(shape, dtype=float), npf(shape, dtype=float)) else 'plain constructor differs from NumPy')


def program_direction_degree(rng, tier, which):
    """which in {'C11','C12'}: forward evaluation and reverse sweep of corpus programs"""
    a = native.algopy(); U = a.UTPM; ns = progs.NS(a)
    ps = progs.single_op_programs(4) + progs.random_programs(25 if tier == 'quick' else 300, rng, N=4, maxlen=4 if tier == 'quick' else 6)
    for p in ps:
        D, P = (3, 3) if which == 'C11' else (4, 2)
        x = T.make_utpm(4, D, P, rng)
        case = {'program': p.describe(), 'D': D, 'P': P, 'x': x.data.tolist()}
        try: y = p.run(ns, U(x.data.copy()))
        except Exception: continue
        if not numpy.all(numpy.isfinite(y.data)) or numpy.abs(y.data).max() > 1e12: continue          # overflow (expm1 of 2000): inf/nan are not comparable, not a verdict
        try:
            cg, fx, fy = T.record(p, U(x.data.copy()))
            cg.pushforward([U(x.data.copy())]); yb = T.rand_like(cg.dependentFunctionList[0].x, rng)
            cg.pullback([U(yb.data.copy())]); xbar = cg.independentFunctionList[0].xbar.data.copy()
        except Exception: xbar = None
        if which == 'C11':
            fail = None
            for q in range(P):
                y1 = p.run(ns, U(x.data[:, q:q + 1].copy()))
                if not numpy.allclose(y.data[:, q], y1.data[:, 0], rtol=1e-10, atol=1e-10): fail = 'forward: direction %d alone differs' % q; break
                if xbar is not None:
                    cg.pushforward([U(x.data[:, q:q + 1].copy())]); cg.pullback([U(yb.data[:, q:q + 1].copy())])
                    xb1 = cg.independentFunctionList[0].xbar.data
                    if not numpy.allclose(xbar[:, q], xb1[:, 0], rtol=1e-9, atol=1e-9): fail = 'reverse sweep: adjoint of direction %d alone differs' % q; break
            yield case, fail
        else:
            fail = None
            for Dp in range(1, D):
                y1 = p.run(ns, U(x.data[:Dp].copy()))
                if not numpy.allclose(y.data[:Dp], y1.data, rtol=1e-10, atol=1e-10): fail = 'forward: coefficients < %d differ between D=%d and D=%d' % (Dp, D, Dp); break
                if xbar is not None:
                    cg.pushforward([U(x.data[:Dp].copy())]); cg.pullback([U(yb.data[:Dp].copy())])
                    xb1 = cg.independentFunctionList[0].xbar.data
                    if not numpy.allclose(xbar[:Dp], xb1, rtol=1e-9, atol=1e-9): fail = 'reverse sweep: adjoint coefficients < %d differ between D=%d and D=%d' % (Dp, D, Dp); break
            yield case, fail


def tracer_frames(rng, tier):
    """C14: neither recording nor a reverse sweep modifies the user's input or seed objects; forward values survive the sweep"""
    a = native.algopy(); U = a.UTPM
    ps = progs.single_op_programs(4) + progs.random_programs(20 if tier == 'quick' else 200, rng, N=4, maxlen=4)
    for p in ps:
        x = T.make_utpm(4, 3, 2, rng); x0 = x.data.copy()
        case = {'program': p.describe()}
        try: cg, fx, fy = T.record(p, x)
        except Exception: continue
        if not numpy.array_equal(x.data, x0): yield case, 'recording modified the input object'; continue
        try:
            x2 = T.make_utpm(4, 3, 2, rng); x20 = x2.data.copy()
            cg.pushforward([x2])
            # every node value (buffers included: the sweep rolls them back while it runs and re-applies the writes at its end,
            # fix 2f23f44) must be what the forward evaluation left
            vals = [(f, f.x.data.copy()) for f in cg.functionList if isinstance(f.x, U)]
            yb = T.rand_like(cg.dependentFunctionList[0].x, rng); yb0 = yb.data.copy()
            cg.pullback([yb])
        except Exception: continue
        fail = None
        if not numpy.array_equal(x2.data, x20): fail = 'forward/reverse sweep modified the input object'
        elif not numpy.array_equal(yb.data, yb0): fail = 'reverse sweep modified the seed object'
        if fail is None:
            # the same with seed objects of other memory kinds: a UTPM that OWNS a freshly allocated array of exactly the dependent's
            # shape and dtype, a non-contiguous view, and a second sweep with the very same seed object
            for kind_ in ('owning', 'view', 'owning-twice'):
                if kind_ == 'view':
                    big = numpy.zeros((yb0.shape[0], 2 * yb0.shape[1]) + yb0.shape[2:], dtype=yb0.dtype); sd = U(big[:, ::2]); sd.data[...] = yb0
                else: sd = U(numpy.array(yb0, dtype=cg.dependentFunctionList[0].x.data.dtype, copy=True, order='C'))
                try:
                    cg.pullback([sd])
                    if kind_ == 'owning-twice': cg.pullback([sd])
                except Exception: break
                if not numpy.array_equal(sd.data, yb0): fail = 'reverse sweep modified the seed object (%s seed)' % kind_; break
        if fail is None:
            for f, v in vals:
                if not numpy.array_equal(f.x.data, v, equal_nan=True): fail = 'reverse sweep modified the forward value of node %d (%s)' % (f.ID, f.func.__name__); break
        yield case, fail


def factorization_directions(rng, tier):
    """C11 for the factorizations: forward value and reverse-sweep adjoint of each direction equal the single-direction run,
    with different base matrices per direction -- one of them special (identity-like / repeated eigenvalue)."""
    a = native.algopy(); U = a.UTPM
    def sym(x): return x + numpy.swapaxes(x, 2, 3)
    def base_spd(p, n): B = numpy.array([native.rnd(rng) for _ in range(n * n)]).reshape(n, n); return B.dot(B.T) + (1.5 + p) * numpy.eye(n)
    facts = [('qr', lambda A: a.qr(A), 'gen'), ('cholesky', lambda A: (a.cholesky(A),), 'spd'), ('eigh', lambda A: a.eigh(A), 'symrep'), ('svd', lambda A: a.svd(A), 'gen'),
             ('inv', lambda A: (a.inv(A),), 'gen'), ('det', lambda A: (a.det(A),), 'gen'), ('logdet', lambda A: (a.logdet(A),), 'spd'), ('lu', lambda A: a.lu(A), 'gen'), ('qr_full', lambda A: a.qr_full(A), 'gen'),
             ('qr[first direction rank-deficient]', lambda A: a.qr(A), 'rankdef'),
             # base matrices that need a DIFFERENT row interchange in each direction (none / reversal / cyclic): pivot vectors and permutation matrices are per direction
             ('det[pivoting differs]', lambda A: (a.det(A),), 'genpiv'), ('logdet[pivoting differs]', lambda A: (a.logdet(A),), 'genpiv'), ('lu[pivoting differs]', lambda A: a.lu(A), 'genpiv'),
             ('inv[pivoting differs]', lambda A: (a.inv(A),), 'genpiv'), ('solve[pivoting differs]', lambda A: (a.solve(A, A[:, :1] + 1.0),), 'genpiv')]
    for name, f, kind in facts:
        for n in ((2, 3) if kind != 'rankdef' else (3, 4)):
            for (D, P) in (((2, 2), (3, 3)) if tier != 'quick' else (((2, 3),) if kind == 'genpiv' else ((2, 2),))):
                A = numpy.array([native.rnd(rng) for _ in range(D * P * n * n)]).reshape(D, P, n, n)
                if kind in ('spd', 'symrep'): A = sym(A)
                for p in range(P):
                    if kind in ('gen', 'rankdef'): A[0, p] = A[0, p] + (2.0 + p) * numpy.eye(n)
                    elif kind == 'genpiv':
                        M = A[0, p] + (2.0 + p) * numpy.eye(n)
                        M = M[::-1].copy() if p % 3 == 1 else (numpy.roll(M, 1, axis=0) if p % 3 == 2 else M)
                        if name.startswith('logdet') and numpy.linalg.det(M) < 0: M[-1] = -M[-1]
                        A[0, p] = M
                    elif kind == 'spd': A[0, p] = base_spd(p, n)
                    else:
                        q0, _ = numpy.linalg.qr(numpy.array([native.rnd(rng) for _ in range(n * n)]).reshape(n, n) + 2 * numpy.eye(n))
                        lam = numpy.arange(1., n + 1) + p
                        if p == P - 1: lam[1] = lam[0]                    # last direction: exactly repeated eigenvalue
                        A[0, p] = q0.dot(numpy.diag(lam)).dot(q0.T)
                if kind == 'rankdef': A[:, 0, :, n - 2:] = 0.          # the rank the library determines for one direction must not leak into the next
                case = {'factorization': name, 'n': n, 'D': D, 'P': P}
                try: ys = f(U(A.copy()))
                except Exception as e: yield case, 'raises %s: %s' % (type(e).__name__, str(e)[:80]); continue
                ys = [y for y in ys if isinstance(y, U)]
                fail = None
                for p in range(P):
                    y1 = [y for y in f(U(A[:, p:p + 1].copy())) if isinstance(y, U)]
                    for k, (yy, y1k) in enumerate(zip(ys, y1)):
                        if not numpy.allclose(yy.data[:, p], y1k.data[:, 0], rtol=1e-8, atol=1e-8): fail = 'forward: output %d of direction %d differs from the single-direction factorization' % (k, p); break
                    if fail: break
                yield dict(case, mode='forward'), fail
                # reverse sweep through the traced factorization (not for the rank-deficient base point: the pullback solves with R_0 and raises there)
                if kind == 'rankdef': continue
                try:
                    def trace(Ad):
                        cg = a.CGraph(); fA = a.Function(U(Ad.copy())); outs = f(fA)
                        outs = [o for o in outs]
                        deps = [o for o in outs if isinstance(getattr(o, 'x', None), U)]
                        cg.trace_off(); cg.independentFunctionList = [fA]; cg.dependentFunctionList = deps
                        return cg, fA, deps
                    cg, fA, deps = trace(A)
                    bars = [T.rand_like(d.x, rng) for d in deps]
                    cg.pullback([U(b.data.copy()) for b in bars]); xbar = fA.xbar.data.copy()
                    fail = None
                    for p in range(P):
                        cg1, fA1, deps1 = trace(A[:, p:p + 1])
                        cg1.pullback([U(b.data[:, p:p + 1].copy()) for b in bars])
                        if not numpy.allclose(xbar[:, p], fA1.xbar.data[:, 0], rtol=1e-7, atol=1e-7): fail = 'reverse sweep: adjoint of direction %d differs from the single-direction sweep (max err %.3g)' % (p, numpy.abs(xbar[:, p] - fA1.xbar.data[:, 0]).max()); break
                    yield dict(case, mode='reverse'), fail
                except Exception as e:
                    msg = str(e)
                    if "pb_" in msg and 'has no attribute' in msg: continue            # no pullback provided: allowed
                    yield dict(case, mode='reverse'), 'raises %s: %s' % (type(e).__name__, [l for l in msg.splitlines() if l.strip()][-1][:120] if msg.strip() else '')


def dot_mixed_kinds(rng, tier):
    """C10: dot with a plain array on either side and operands of rank up to 3 -- shape and every coefficient slice follow numpy.dot
    (the constant is a degree-0 polynomial, so coefficient d of the result is numpy.dot(constant, y_d))"""
    a = native.algopy(); U = a.UTPM
    pairs = [((3,), (3,)), ((2, 3), (3,)), ((3,), (3, 2)), ((2, 3), (3, 2)), ((4,), (4, 4, 5)), ((3, 4), (4, 4, 2)), ((2, 3), (2, 3, 2)), ((2, 2, 3), (3,)), ((2, 2, 3), (3, 2)), ((3, 3, 3), (3, 3, 3))]
    for (D, P) in ((1, 1), (3, 2)):
        for (sx, sy) in pairs:
            x = optable.gen_input(rng, D, P, sx, (-1, 1)); y = optable.gen_input(rng, D, P, sy, (-1, 1))
            for kinds in ('CU', 'UC'):
                case = {'op': 'dot', 'kinds': kinds, 'shapes': [list(sx), list(sy)], 'D': D, 'P': P}
                try:
                    if kinds == 'CU': c = x[0, 0].copy(); r = a.dot(c, U(y.copy())); want = lambda d, p: numpy.dot(c, y[d, p])
                    else: c = y[0, 0].copy(); r = a.dot(U(x.copy()), c); want = lambda d, p: numpy.dot(x[d, p], c)
                except Exception as e: yield case, 'raises %s: %s' % (type(e).__name__, str(e)[:100]); continue
                fail = None
                for d in range(D):
                    for p in range(P):
                        w = want(d, p)
                        if r.data[d, p].shape != numpy.shape(w): fail = 'shape %s, numpy.dot gives %s' % (r.data[d, p].shape, numpy.shape(w)); break
                        if not numpy.allclose(r.data[d, p], w, rtol=1e-12, atol=1e-12): fail = 'coefficient %d of direction %d differs from numpy.dot with the constant operand' % (d, p); break
                    if fail: break
                yield case, fail


def plain_dispatch(rng, tier):
    """C10, last sentence: called with plain arrays or scalars only, every algopy-level function with a NumPy/SciPy namesake returns what
    that namesake returns.  The functions are discovered from the algopy namespace (nothing is listed by hand); the argument kinds are
    Python float/int, numpy.float64, 0-d / 1-d / 2-d arrays (C and Fortran order, float and integer).  A kind the namesake itself refuses
    is skipped.  Lists and tuples are not enumerated: the hand-written dispatchers refuse them explicitly and the property speaks of
    arrays and scalars.  expm is left out: algopy.expm is documented as a fixed-order (7) Pade approximation without
    scaling and squaring, not as a dispatch to scipy.linalg.expm, so its plain-array values agree with SciPy only to an accuracy that
    depends on the norm of the matrix (1e-7 at norm 4)."""
    import inspect, warnings, scipy.linalg, scipy.special
    a = native.algopy(); U = a.UTPM
    M = numpy.array([[1.3, 0.7], [0.2, 1.4]]) + 0.01 * native.rnd(rng)
    kinds = [('float', 0.4), ('int', 2), ('float64', numpy.float64(0.4)), ('0-d', numpy.array(0.4)), ('1-d', numpy.array([0.3, 0.7, 0.5])), ('2-d', M), ('2-d[F]', numpy.asfortranarray(M)),
             ('2-d[T]', M.T), ('1-d[int]', numpy.array([1, 2, 3])), ('2-d[int]', numpy.array([[2, 1], [1, 3]]))]
    import algopy.special as asp, algopy.fft as afft
    todo = []
    for mod, refs, tag in ((a, (numpy, numpy.linalg, scipy.linalg, scipy.special), ''), (asp, (scipy.special,), 'special.'), (afft, (numpy.fft,), 'fft.')):
        for nm in sorted(dir(mod)):
            if nm.startswith('_') or nm == 'test': continue      # numpy.test is the test-suite runner, not a function of arrays
            f = getattr(mod, nm)
            if not callable(f) or inspect.isclass(f) or inspect.ismodule(f): continue
            for ns in refs:
                if callable(getattr(ns, nm, None)): todo.append((tag + nm, nm, f, getattr(ns, nm))); break
    kd = dict(kinds); v2 = numpy.array([0.6, 0.2]); B = numpy.array([[0.5, 1.5], [2.5, 0.25]])
    pairs = [('float,float', (0.4, 1.5)), ('1-d,1-d', (kd['1-d'], kd['1-d'][::-1])), ('2-d,2-d', (M, B)), ('2-d,1-d', (M, v2)), ('1-d,2-d', (v2, M)), ('float,1-d', (0.4, kd['1-d'])), ('1-d,float', (kd['1-d'], 1.5)),
             ('1-d[int],float', (kd['1-d[int]'], 0.5)), ('2-d[T],2-d[F]', (M.T, numpy.asfortranarray(B))), ('int,int', (2, 3)), ('2-d,int', (M, 2)),
             ('float,float,float', (0.5, 1.5, 0.3)), ('float,float,1-d', (0.5, 1.5, kd['1-d'])), ('float,float,2-d', (0.5, 1.5, M)), ('int,int,int', (1, 2, 3))]
    cp = lambda t: t.copy() if isinstance(t, numpy.ndarray) else t
    for full, nm, f, ref in todo:
        if ref is None or nm == 'expm': continue
        # never fill the reference's `out` parameter positionally: a ufunc takes exactly nin operands, another function as many as it has
        # positional parameters before one named out / dtype / order / axis...
        if isinstance(ref, numpy.ufunc): maxpos = ref.nin
        else:
            maxpos = 0
            try:
                for prm in inspect.signature(ref).parameters.values():
                    if prm.kind not in (prm.POSITIONAL_ONLY, prm.POSITIONAL_OR_KEYWORD) or prm.name in ('out', 'dtype', 'order', 'axis', 'overwrite_a', 'check_finite', 'mode', 'UPLO', 'k'): break
                    maxpos += 1
            except (TypeError, ValueError): maxpos = 1
        for kname, arg in kinds + pairs:
            args = arg if isinstance(arg, tuple) else (arg,)
            if len(args) > maxpos: continue
            with warnings.catch_warnings(), numpy.errstate(all='ignore'):
                warnings.simplefilter('ignore')
                try: want = ref(*[cp(t) for t in args])
                except Exception: continue
                if want is None: continue
                case = {'function': full, 'arg': kname}
                try: got = f(*[cp(t) for t in args])
                except Exception as e: yield case, 'raises %s (%s) where the NumPy/SciPy function of the same name returns a value' % (type(e).__name__, str(e)[:80]); continue
                try:
                    ws = want if isinstance(want, tuple) else (want,); gs = got if isinstance(got, tuple) else (got,)
                    ok = len(ws) == len(gs) and not any(isinstance(g, U) for g in gs)
                    for w_, g_ in zip(ws, gs):
                        ok = ok and numpy.shape(g_) == numpy.shape(w_) and numpy.array_equal(numpy.asarray(g_), numpy.asarray(w_), equal_nan=True)
                except Exception as e: ok = False
                yield case, (None if ok else 'result %s differs from what the NumPy/SciPy function returns (%s)' % (str(got)[:60], str(want)[:60]))


def linalg_frames(rng, tier):
    """C14 for the matrix functions and factorizations (single- and multi-output), with the operand handed over in three memory layouts:
    C-contiguous, every (d,p) slice Fortran-contiguous (what LAPACK wrappers with an overwrite flag actually overwrite), and a strided
    view of a larger array.  The operand -- and the array that owns the view -- must be byte-identical afterwards."""
    a = native.algopy(); U = a.UTPM
    def spd(x):
        for p in range(x.shape[1]): x[0, p] = x[0, p].dot(x[0, p].T) + (2.0 + p) * numpy.eye(x.shape[2])
        x[1:] = x[1:] + numpy.swapaxes(x[1:], -1, -2); return x
    def gen(x):
        for p in range(x.shape[1]): x[0, p] = x[0, p] + (2.0 + p) * numpy.eye(*x.shape[2:])
        return x
    fns = [('qr', a.qr, gen, ((3, 3), (4, 2))), ('qr_full', a.qr_full, gen, ((3, 3), (4, 2))), ('cholesky', a.cholesky, spd, ((3, 3),)), ('lu', a.lu, gen, ((3, 3),)), ('eigh', a.eigh, spd, ((3, 3),)),
           ('svd', a.svd, gen, ((3, 3), (4, 2))), ('inv', a.inv, gen, ((3, 3),)), ('det', a.det, gen, ((3, 3),)), ('logdet', a.logdet, spd, ((3, 3),)), ('expm', a.expm, lambda x: x * 0.25, ((3, 3),)),
           ('trace', a.trace, gen, ((3, 3),)), ('solve', lambda A: a.solve(A, A[:, :1] + 1.0), gen, ((3, 3),)), ('dot', lambda A: a.dot(A, A.T), gen, ((3, 3), (4, 2))), ('transpose+0', lambda A: A.T + 0, gen, ((4, 2),)),
           ('diag', a.diag, gen, ((3, 3),)), ('triu', a.triu, gen, ((3, 3),)), ('symvec', a.symvec, spd, ((3, 3),)), ('sum', lambda A: a.sum(A, axis=0), gen, ((4, 2),)), ('eig', a.eig, spd, ((3, 3),))]
    for name, f, prep, shapes in fns:
        for shp in shapes:
            for (D, P) in ((1, 1), (3, 2)) if tier == 'quick' else ((1, 1), (2, 1), (3, 2), (4, 3)):
                if name == 'eig' and D > 2: continue
                x = prep(numpy.array([native.rnd(rng) for _ in range(D * P * shp[0] * shp[1])]).reshape((D, P) + shp))
                for layout in ('C', 'F-slices', 'strided'):
                    if layout == 'C': own = x.copy(); v = own
                    elif layout == 'F-slices': own = numpy.zeros((D, P, shp[1], shp[0])); v = numpy.swapaxes(own, -1, -2); v[...] = x
                    else: own = numpy.zeros((D, 2 * P) + shp); v = own[:, ::2]; v[...] = x
                    before = own.copy(); case = {'fn': name, 'shape': list(shp), 'D': D, 'P': P, 'layout': layout}
                    try:
                        with numpy.errstate(all='ignore'): f(U(v))
                    except Exception as e: yield case, None; continue          # whether the call succeeds is another property's business
                    yield case, (None if numpy.array_equal(own, before) else 'the argument (or the array owning the view passed) was modified: max change %.3g' % float(numpy.abs(own - before).max()))
