"""Generic per-operation run-time contracts over bounded/optable.py.  Yields (property id, op name, case, failure|None)."""
import numpy, math
from lib import native
from . import optable, specinterp as SI


def _call(op, arrs):
    a = native.algopy(); U = a.UTPM
    us = [U(x.copy()) for x in arrs]
    with numpy.errstate(all='ignore'): r = op.f(*us)
    return r, us


def _call_views(op, arrs, rng):
    """the same operands as non-contiguous views: strided direction axis, strided last axis or swapped memory order of the last two axes"""
    a = native.algopy(); U = a.UTPM
    us = []
    for x in arrs:
        mode = rng.choice(['p', 'last', 'swap'] if x.ndim >= 4 else (['p', 'last'] if x.ndim == 3 else ['p']))
        if mode == 'p': big = numpy.zeros((x.shape[0], 2 * x.shape[1]) + x.shape[2:], dtype=x.dtype); v = big[:, ::2]
        elif mode == 'last': big = numpy.zeros(x.shape[:-1] + (2 * x.shape[-1],), dtype=x.dtype); v = big[..., ::2]
        else: big = numpy.zeros(x.shape[:-2] + (x.shape[-1], x.shape[-2]), dtype=x.dtype); v = numpy.swapaxes(big, -1, -2)
        v[...] = x; us.append(U(v))
    with numpy.errstate(all='ignore'): r = op.f(*us)
    return r, us


def _mp_oracle(op, col):
    import mpmath as mp
    mp.mp.dps = 40
    cplx = any(isinstance(v, complex) or numpy.iscomplexobj(v) for v in col)
    conv = (lambda v: mp.mpc(complex(v))) if cplx else (lambda v: mp.mpf(float(v)))
    D = len(col); x0 = conv(col[0])
    der = [op.mp(x0)] + [mp.diff(op.mp, x0, n) for n in range(1, D)]
    xs = [conv(v) for v in col]
    out = SI.compose_faa(xs, der)
    return [complex(v) for v in out] if cplx else [float(v) for v in out]

COMPLEX_OPS = ('exp', 'expm1', 'log', 'log1p', 'sqrt', 'sin', 'cos', 'tan', 'arcsin', 'arccos', 'arctan', 'sinh', 'cosh', 'tanh', 'reciprocal', 'square', 'negative',
               'pow[3]', 'pow[2.5]', 'pow[-2]', 'rpow[2]')

def complex_pass(rng, tier):
    """C01 for complex coefficients: analytic elementary functions on polynomials whose coefficients (all orders) have non-zero imaginary
    parts, against the Faa di Bruno composition of mpmath's complex derivatives"""
    a = native.algopy(); U = a.UTPM
    for op in optable.table():
        if op.name not in COMPLEX_OPS or op.mp is None: continue
        for (D, P) in ((2, 1), (4, 2)) if tier == 'quick' else ((1, 1), (2, 1), (3, 2), (5, 2)):
            for shp in ((), (2,)):
                x = optable.gen_input(rng, D, P, shp, op.dom, cplx=True, kind=op.kind, name=op.name)
                x[0] = x[0].real + 0.25j * x[0].imag                      # stay close to the real domain of smoothness
                case = {'op': op.name + '[complex]', 'D': D, 'P': P, 'shapes': [list(shp)]}
                try:
                    with numpy.errstate(all='ignore'): r = op.f(U(x.copy()))
                except Exception as e: yield op.name, case, 'raises %s: %s' % (type(e).__name__, str(e)[:100]); continue
                if not numpy.all(numpy.isfinite(r.data)): continue
                fail = None
                for pos in list(numpy.ndindex(*x.shape[1:]))[:3]:
                    col = [complex(x[(d,) + pos]) for d in range(D)]
                    try: exp = _mp_oracle(op, col)
                    except Exception: break
                    got = [complex(r.data[(d,) + pos]) for d in range(D)]
                    sc = max(1.0, max(abs(v) for v in exp))
                    for d in range(D):
                        if not abs(got[d] - exp[d]) <= max(op.tol, 1e-8) * sc: fail = 'complex coefficients: coefficient %d at %s: got %r, (1/d!) d^d/dt^d f(x(t)) = %r' % (d, pos, got[d], exp[d]); break
                    if fail: break
                yield op.name, case, fail


def run(rng, tier, want=('C01', 'C10', 'C11', 'C12', 'C13', 'C14')):
    a = native.algopy(); U = a.UTPM
    DPs = [(1, 1), (3, 2)] if tier == 'quick' else [(1, 1), (2, 3), (4, 2), (6, 1)]
    if tuple(want) == ('C14',) and tier == 'quick': DPs = DPs + [(7, 1)]          # byte-wise frames need D > 3: (x*d)/d is not the identity in floating point from d = 3 on
    if tuple(want) == ('C12',): DPs = DPs + [(12, 2)]          # long series: fast paths keyed on the number of coefficients (FFT products, blocked loops)
    for op in optable.table():
        if op.only is not None and not (set(op.only) & set(want)): continue
        shape_sets = [tuple(op.shapes)] if (op.nin == 2 and op.kind == 'linalg') else [tuple([s] * op.nin) for s in op.shapes]
        for shapes in shape_sets:
            for (D, P) in DPs:
                if op.name == 'floordiv[0/0]' and D < 2: continue          # 0/0 with no higher coefficient carries no information (the kernel would shift forever)
                arrs = [optable.gen_input(rng, D, P, s, op.dom, cplx=op.cplx, kind=op.kind, name=op.name) for s in shapes]
                if op.name == 'floordiv[0/0]':
                    for x_ in arrs: x_[1] = numpy.abs(x_[1]) + 0.5
                case = {'op': op.name, 'D': D, 'P': P, 'shapes': [list(s) for s in shapes], 'inputs': [x.tolist() if not op.cplx else None for x in arrs]}
                try: r, us = _call(op, arrs)
                except Exception as e:
                    yield 'ANY', op.name, case, 'raises %s: %s' % (type(e).__name__, str(e).strip().splitlines()[-1][:120] if str(e).strip() else ''); continue
                if not isinstance(r, U):
                    yield 'C10', op.name, case, 'returns %s, not a Taylor polynomial' % type(r).__name__; continue
                if not numpy.all(numpy.isfinite(r.data)): continue          # outside the domain: no verdict
                scale = max(1.0, float(numpy.abs(r.data).max()))
                # ---- memory layout must not matter (metamorphic): the same coefficients handed over as NON-CONTIGUOUS arrays give the same result
                ltag = {'elementwise': 'C01', 'elementwise2': 'C01', 'shape': 'C13', 'linalg': 'C10'}.get(op.kind)
                if ltag in want and op.kind != 'frame-only':
                    try:
                        r_nc, _ = _call_views(op, arrs, rng)
                        ok = isinstance(r_nc, U) and r_nc.data.shape == r.data.shape and numpy.array_equal(r_nc.data, r.data, equal_nan=True)
                        if not ok and isinstance(r_nc, U) and r_nc.data.shape == r.data.shape: ok = numpy.allclose(r_nc.data, r.data, rtol=1e-13, atol=1e-13 * scale, equal_nan=True)
                        yield ltag, op.name + '[layout]', case, (None if ok else 'result depends on the memory layout of the operand (non-contiguous coefficient array vs contiguous copy)')
                    except Exception as e:
                        yield ltag, op.name + '[layout]', case, 'raises %s for a non-contiguous operand: %s' % (type(e).__name__, str(e)[:100])
                # ---- C14 operands untouched
                if 'C14' in want:
                    bad = [i for i, (u, x) in enumerate(zip(us, arrs)) if not numpy.array_equal(u.data, x)]
                    f14 = 'operand %s modified' % bad if bad else None
                    # apart from the operations that are views in NumPy as well (indexing, transposition, reshape, real/imag part), the result is
                    # a new polynomial: one that is (or shares memory with) an operand is overwritten by the next in-place update of either
                    if f14 is None and not op.view and not op.name.startswith(('reshape', 'real', 'imag', 'getitem', 'transpose')):
                        outs_ = r if isinstance(r, (tuple, list)) else (r,)
                        if any(isinstance(o, U) and any(o is u or numpy.shares_memory(o.data, u.data) for u in us) for o in outs_): f14 = 'the result is (or shares memory with) an operand'
                    # the table's coefficients are dyadic rationals (exact arithmetic for the value checks); a frame violation of one ulp -- e.g. an
                    # operand scaled in place and scaled back -- only shows on generic floating-point values
                    if f14 is None and op.kind != 'frame-only' and not op.cplx:
                        try:
                            xg = [x * (1.0 + numpy.array([rng.random() for _ in range(x.size)]).reshape(x.shape) / 7.0) for x in arrs]
                            if op.kind == 'linalg' or min(float(numpy.min(x[0])) for x in xg) >= op.dom[0] and max(float(numpy.max(x[0])) for x in xg) <= op.dom[1] * 1.2:
                                ug = [U(x.copy()) for x in xg]
                                with numpy.errstate(all='ignore'): op.f(*ug)
                                badg = [i for i, (u, x) in enumerate(zip(ug, xg)) if not numpy.array_equal(u.data, x)]
                                if badg: f14 = 'operand %s modified (generic floating-point coefficients; max change %.3g)' % (badg, max(float(numpy.abs(ug[i].data - xg[i]).max()) for i in badg))
                        except Exception: pass
                    yield 'C14', op.name, case, f14
                # ---- C10 zeroth coefficient / shape like NumPy
                if 'C10' in want and op.npf is not None:
                    fail = None
                    for p in range(P):
                        with numpy.errstate(all='ignore'): w = op.npf(*[x[0, p] for x in arrs])
                        if w is None: break
                        w = numpy.asarray(w)
                        if r.data[0, p].shape != w.shape: fail = 'shape %s, NumPy gives %s' % (r.data[0, p].shape, w.shape); break
                        if not numpy.allclose(r.data[0, p], w, rtol=1e-12, atol=1e-12): fail = 'zeroth coefficient of direction %d differs from NumPy (max err %.3g)' % (p, numpy.abs(r.data[0, p] - w).max()); break
                        if (r.shape, r.ndim, r.size) != (w.shape, w.ndim, w.size): fail = 'shape/ndim/size %s vs NumPy %s' % ((r.shape, r.ndim, r.size), (w.shape, w.ndim, w.size)); break
                        if w.ndim and len(r) != len(w): fail = 'len %d vs %d' % (len(r), len(w)); break
                    yield 'C10', op.name, case, fail
                    # plain arrays in -> exactly NumPy out
                    try:
                        with numpy.errstate(all='ignore'):
                            g = op.f(*[x[0, 0].copy() for x in arrs]); w = op.npf(*[x[0, 0] for x in arrs])
                        if w is not None:
                            yield 'C10', op.name + '[plain]', case, (None if (not isinstance(g, U) and numpy.shape(g) == numpy.shape(w) and numpy.array_equal(numpy.asarray(g), numpy.asarray(w), equal_nan=True)) else 'called with plain arrays the result is not what NumPy returns')
                    except Exception as e:
                        yield 'C10', op.name + '[plain]', case, 'plain-array call raises %s' % type(e).__name__
                # ---- C13 slice-wise
                if 'C13' in want and op.slicewise and op.npf is not None:
                    fail = None
                    for d in range(D):
                        for p in range(P):
                            w = op.npf(*[x[d, p] for x in arrs])
                            if w is None: break
                            if d == 0 or op.name not in ('ones_like',):
                                if r.data[d, p].shape != numpy.shape(w) or not numpy.allclose(r.data[d, p], w, rtol=1e-12, atol=1e-12): fail = 'slice (d=%d,p=%d) differs from the NumPy operation on that slice' % (d, p); break
                            else:
                                if numpy.abs(r.data[d, p]).max() != 0: fail = 'ones_like has non-zero higher coefficients'; break
                        if fail: break
                    yield 'C13', op.name, case, fail
                # ---- C11 direction independence
                if 'C11' in want and P > 1:
                    fail = None
                    for p in range(P):
                        r1, _ = _call(op, [x[:, p:p + 1] for x in arrs])
                        if r1.data.shape[2:] != r.data.shape[2:] or not numpy.allclose(r.data[:, p], r1.data[:, 0], rtol=1e-10, atol=1e-10 * scale):
                            fail = 'direction %d evaluated alone differs (max err %.3g)' % (p, numpy.abs(r.data[:, p] - r1.data[:, 0]).max() if r1.data.shape[2:] == r.data.shape[2:] else float('nan')); break
                    yield 'C11', op.name, case, fail
                # ---- C12 degree independence
                if 'C12' in want and D > 1:
                    fail = None
                    for Dp in (range(1, D) if D <= 8 else (1, 2, 5, 9, D - 1)):
                        r1, _ = _call(op, [x[:Dp] for x in arrs])
                        if not numpy.allclose(r.data[:Dp], r1.data, rtol=1e-10, atol=1e-10 * scale): fail = 'coefficients < %d change when computed with D=%d instead of D=%d' % (Dp, D, Dp); break
                    yield 'C12', op.name, case, fail
                # ---- C01 Taylor coefficients against mpmath derivatives (independent of algopy.nthderiv)
                if 'C01' in want and op.mp is not None and op.nin == 1 and D <= 5:
                    fail = None; x = arrs[0]
                    for pos in list(numpy.ndindex(*x.shape[1:]))[:4]:
                        col = [x[(d,) + pos] for d in range(D)]
                        try: exp = _mp_oracle(op, col)
                        except Exception as e: fail = None; break
                        got = [r.data[(d,) + pos] for d in range(D)]
                        sc = max(1.0, max(abs(v) for v in exp))
                        for d in range(D):
                            if not abs(got[d] - exp[d]) <= op.tol * sc: fail = 'coefficient %d at %s: got %r, (1/d!) d^d/dt^d f(x(t)) = %r' % (d, pos, float(got[d]), exp[d]); break
                        if fail: break
                    yield 'C01', op.name, case, fail
                # ---- C13 view semantics (done last, on a fresh call: it writes through the view)
                if 'C13' in want and op.slicewise and op.view and op.npf is not None:
                    fail = None
                    r2, us2 = _call(op, arrs)
                    v = arrs[0][0, 0].copy(); wv = op.npf(v)
                    if numpy.ndim(wv) > 0:
                        np_shares = numpy.shares_memory(wv, v); al_shares = numpy.shares_memory(r2.data, us2[0].data)
                        if np_shares != al_shares: fail = 'view semantics differ from NumPy (NumPy shares memory: %s, algopy: %s)' % (np_shares, al_shares)
                        elif al_shares and r2.data.size:
                            r2.data[...] = 7.0
                            chk = arrs[0].copy()
                            for d in range(D):
                                for p in range(P): op.npf(chk[d, p])[...] = 7.0
                            if not numpy.array_equal(us2[0].data, chk): fail = 'writing through the view does not update the parent as in NumPy'
                    yield 'C13', op.name + '[view]', case, fail


def special_points_pass(rng, tier):
    """C01 at special base points: zeroth coefficient exactly 0, 1 or -1 (where that lies in the domain of smoothness), generic higher coefficients"""
    a = native.algopy(); U = a.UTPM
    for op in optable.table():
        if op.mp is None or op.nin != 1 or op.kind != 'elementwise': continue
        lo, hi = op.dom
        pts = [v for v in (0.0, 1.0, -1.0) if lo <= v <= hi or (op.name in ('exp', 'expm1', 'sin', 'cos', 'sinh', 'cosh', 'tanh', 'arctan', 'square', 'negative', 'erf', 'erfi', 'dawsn', 'expit', 'pow[3]', 'rpow[2]', 'tan') and abs(v) <= 1)]
        if op.name in ('log', 'sqrt', 'reciprocal', 'pow[2.5]', 'pow[-2]', 'gammaln', 'psi', 'polygamma[1]', 'polygamma[2]'): pts = [1.0]
        if op.name in ('log1p',): pts = [0.0, 1.0]
        if op.name.startswith(('absolute', 'sign', 'clip', 'logit', 'hyperu', 'arcsin', 'arccos')): pts = [0.0] if op.name in ('arcsin', 'arccos') else []
        for x0 in pts:
            for (D, P) in ((3, 1), (5, 2)) if tier == 'quick' else ((2, 1), (4, 2), (5, 3)):
                x = optable.gen_input(rng, D, P, (), op.dom, kind=op.kind, name=op.name); x[0] = x0
                case = {'op': op.name + '[x0=%g]' % x0, 'D': D, 'P': P, 'shapes': [[]]}
                try:
                    with numpy.errstate(all='ignore'): r = op.f(U(x.copy()))
                except Exception as e: yield op.name, case, 'raises %s: %s' % (type(e).__name__, str(e)[:100]); continue
                fail = None
                for p_ in range(P):
                    col = [float(x[d, p_]) for d in range(D)]
                    try: exp = _mp_oracle(op, col)
                    except Exception: break
                    if not all(math.isfinite(v) for v in exp): break
                    got = [float(r.data[d, p_]) for d in range(D)]
                    sc = max(1.0, max(abs(v) for v in exp))
                    for d in range(D):
                        if not (math.isfinite(got[d]) and abs(got[d] - exp[d]) <= max(op.tol, 1e-8) * sc): fail = 'coefficient %d: got %r, (1/d!) d^d/dt^d f(x(t)) = %r' % (d, got[d], exp[d]); break
                    if fail: break
                yield op.name, case, fail


ARITH_OPS = [('x+y', lambda x, y: x + y), ('x-y', lambda x, y: x - y), ('x*y', lambda x, y: x * y), ('x/y', lambda x, y: x / y), ('x+0.5', lambda x, y: x + 0.5), ('0.5-x', lambda x, y: 0.5 - x),
             ('x*0.5', lambda x, y: x * 0.5), ('x/2', lambda x, y: x / 2), ('x/2.0', lambda x, y: x / 2.0), ('3/x', lambda x, y: 3 / x), ('0.5/x', lambda x, y: 0.5 / x), ('x**2', lambda x, y: x ** 2), ('x**-1', lambda x, y: x ** -1),
             ('x**0.5', lambda x, y: x ** 0.5), ('x**y', lambda x, y: x ** y), ('2**x', lambda x, y: 2 ** x), ('-x', lambda x, y: -x), ('x+=0.5', lambda x, y: x.__iadd__(0.5)), ('x*=0.5', lambda x, y: x.__imul__(0.5)),
             ('x/=2', lambda x, y: x.__itruediv__(2)), ('x-=y', lambda x, y: x.__isub__(y)), ('x*=y', lambda x, y: x.__imul__(y)), ('x/=y', lambda x, y: x.__itruediv__(y)), ('x+ndarray', lambda x, y: x + numpy.array([0.5, 1.5])),
             ('x/ndarray[int]', lambda x, y: x / numpy.array([2, 4]))]


def integer_typed_pass(rng, tier, kinds):
    """Integer-valued coefficients are real coefficients: a polynomial built from an integer-typed coefficient array must give the same
    result as the polynomial built from the same values in floating point (oracle: the floating-point evaluation, itself decided by the
    other passes).  kinds: 'elementwise' (C01), 'linalg' (C07), 'arith' (C02).  Values are small integers, zeroth coefficients integers of
    the function's domain of smoothness (functions without an integer there are skipped); cases whose floating-point evaluation raises or
    is not finite are skipped."""
    a = native.algopy(); U = a.UTPM
    DPs = ((2, 1), (3, 2)) if tier == 'quick' else ((1, 1), (2, 1), (3, 2), (4, 3))
    todo = []
    if 'arith' in kinds: todo += [('arith', nm, f, 2, ((2,), (2, 2)), (1, 3)) for nm, f in ARITH_OPS]
    for op in optable.table():
        k = 'elementwise' if op.kind.startswith('elementwise') else op.kind
        if k in kinds and k != 'arith': todo.append((k, op.name, op.f, op.nin, op.shapes, op.dom, op))
    for ent in todo:
        k, name, f, nin, shapes, dom = ent[:6]; op = ent[6] if len(ent) > 6 else None
        shape_sets = [tuple(shapes)] if (op is not None and nin == 2 and k == 'linalg') else [tuple([s] * nin) for s in shapes]
        for shs in shape_sets:
            for (D, P) in DPs:
                xi = []
                for s in shs:
                    x = numpy.rint(2 * optable.gen_input(rng, D, P, s, dom, kind=(op.kind if op else 'elementwise'), name=name))
                    if k != 'linalg':
                        ints = [v for v in range(-3, 4) if dom[0] <= v <= dom[1]]
                        if not ints: x = None; break
                        x[0] = numpy.array([rng.choice(ints) for _ in range(x[0].size)]).reshape(x[0].shape)
                    xi.append(x)
                if not xi or xi[-1] is None: continue
                case = {'op': name + '[integer-typed]', 'D': D, 'P': P, 'shapes': [list(s) for s in shs]}
                fl = lambda r: [t.data if isinstance(t, U) else numpy.asarray(t) for t in (r if isinstance(r, (tuple, list)) else (r,))]
                with numpy.errstate(all='ignore'):
                    try: rf = fl(f(*[U(x.astype(float)) for x in xi]))
                    except Exception: continue
                    if not all(numpy.all(numpy.isfinite(t)) for t in rf if t.dtype.kind in 'fc'): continue
                    try: ri = fl(f(*[U(x.astype(int)) for x in xi]))
                    except Exception as e: yield k, name, case, 'raises %s (%s) for integer-typed coefficient arrays; the same values in floating point evaluate' % (type(e).__name__, str(e)[:80]); continue
                ok = len(rf) == len(ri) and all(p.shape == q.shape and numpy.allclose(p, q, rtol=1e-12, atol=1e-13) for p, q in zip(rf, ri))
                yield k, name, case, (None if ok else 'integer-typed coefficient arrays give %s, the same values in floating point %s' % (str(ri[0].ravel()[:4]), str(rf[0].ravel()[:4])))
