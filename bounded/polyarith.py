"""Independent truncated power-series arithmetic on raw coefficient arrays of shape (D,P)+shp (oracle for C02/C07/C08/C10).
Shares no code with algopy.  Constants are polynomials of degree zero, broadcast the NumPy way over the trailing axes."""
import numpy


def lift(c, D, P, dtype=None):
    """constant (scalar or ndarray) -> degree-0 polynomial data of shape (D,P)+shape(c)"""
    c = numpy.asarray(c)
    out = numpy.zeros((D, P) + c.shape, dtype=dtype or numpy.result_type(c, float))
    out[0] = c
    return out


def bc(x, y):
    """broadcast two data arrays over their trailing (coefficient-shape) axes"""
    D, P = x.shape[:2]
    S = numpy.broadcast_shapes(x.shape[2:], y.shape[2:])
    def ex(a):
        a = a.reshape(a.shape[:2] + (1,) * (len(S) - (a.ndim - 2)) + a.shape[2:])
        return numpy.broadcast_to(a, (D, P) + S)
    return ex(x), ex(y)


def add(x, y): x, y = bc(x, y); return x + y
def sub(x, y): x, y = bc(x, y); return x - y
def mul(x, y):
    x, y = bc(x, y); D = x.shape[0]
    z = numpy.zeros(x.shape, dtype=numpy.result_type(x, y))
    for d in range(D):
        for k in range(d + 1): z[d] = z[d] + x[k] * y[d - k]
    return z
def div(x, y):
    x, y = bc(x, y); D = x.shape[0]
    z = numpy.zeros(x.shape, dtype=numpy.result_type(x, y, float))
    for d in range(D):
        acc = x[d].astype(z.dtype)
        for k in range(d): acc = acc - z[k] * y[d - k]
        z[d] = acc / y[0]
    return z
def exp(x):
    D = x.shape[0]; y = numpy.zeros(x.shape, dtype=numpy.result_type(x, float)); y[0] = numpy.exp(x[0])
    for n in range(1, D):
        for k in range(1, n + 1): y[n] = y[n] + k * x[k] * y[n - k]
        y[n] = y[n] / n
    return y
def log(x):
    D = x.shape[0]; y = numpy.zeros(x.shape, dtype=numpy.result_type(x, float)); y[0] = numpy.log(x[0])
    for n in range(1, D):
        acc = n * x[n]
        for k in range(1, n): acc = acc - k * y[k] * x[n - k]
        y[n] = acc / (n * x[0])
    return y
def powc(x, r):
    """x ** r for a scalar r (int, float, complex)"""
    D = x.shape[0]
    if isinstance(r, (int, numpy.integer)) and r >= 0:
        y = lift(numpy.ones(x.shape[2:]), D, x.shape[1], dtype=numpy.result_type(x, float))
        y = numpy.broadcast_to(y, x.shape).copy()
        for _ in range(int(r)): y = mul(x, y)
        return y
    y = numpy.zeros(x.shape, dtype=numpy.result_type(x, r, float)); y[0] = x[0].astype(y.dtype) ** r
    for n in range(1, D):
        acc = 0
        for k in range(1, n + 1): acc = acc + r * k * x[k] * y[n - k]
        for k in range(1, n): acc = acc - k * y[k] * x[n - k]
        y[n] = acc / (n * x[0])
    return y
def matmul(x, y):
    """truncated product with numpy.dot per (d,p)"""
    D, P = x.shape[:2]
    z0 = numpy.dot(x[0, 0], y[0, 0])
    z = numpy.zeros((D, P) + numpy.shape(z0), dtype=numpy.result_type(x, y))
    for d in range(D):
        for p in range(P):
            for k in range(d + 1): z[d, p] = z[d, p] + numpy.dot(x[k, p], y[d - k, p])
    return z
def transpose(x): return numpy.transpose(x, (0, 1) + tuple(range(x.ndim - 1, 1, -1)))
