"""Program corpus for the bounded stand-ins (DESIGN 8.3): small typed straight-line programs over algopy's
differentiable API.  One interpreter runs a program on plain ndarrays, on UTPM instances, on traced Function
nodes and (for the exact oracle) on object arrays of sympy expressions -- the program text is the same in all cases.

A program is a list of statements (dst, op, args, params); variable 0 is the input vector x of shape (N,)."""
import itertools, random
import numpy


class NS:
    """namespace used by the interpreter: `algopy`-level functions"""
    def __init__(self, A): self.A = A
    def __getattr__(self, n): return getattr(self.A, n)


class SymNS:
    """the same functions on object arrays of sympy expressions (exact oracle)"""
    def __init__(self):
        import sympy; self.sp = sympy
    def _map(self, f): return lambda x: (numpy.vectorize(f, otypes=[object])(x) if isinstance(x, numpy.ndarray) else f(x))
    def __getattr__(self, n):
        sp = self.sp
        tbl = {'exp': sp.exp, 'sin': sp.sin, 'cos': sp.cos, 'tan': sp.tan, 'tanh': sp.tanh, 'sinh': sp.sinh, 'cosh': sp.cosh, 'log': sp.log,
               'sqrt': sp.sqrt, 'arctan': sp.atan, 'arcsin': sp.asin, 'expm1': lambda v: sp.exp(v) - 1, 'log1p': lambda v: sp.log(1 + v),
               'square': lambda v: v * v, 'negative': lambda v: -v, 'reciprocal': lambda v: 1 / v, 'absolute': sp.Abs}
        if n in tbl: return self._map(tbl[n])
        if n == 'sum': return lambda x, axis=None: numpy.sum(x, axis=axis)
        if n == 'dot': return numpy.dot
        if n == 'outer': return numpy.outer
        if n == 'zeros': return lambda shp, dtype=None: numpy.array(numpy.zeros(shp), dtype=object) * self.sp.Integer(0) + self.sp.Integer(0)
        if n == 'transpose': return numpy.transpose
        if n == 'reshape': return numpy.reshape
        if n == 'trace': return numpy.trace
        if n == 'prod': return numpy.prod
        if n == 'inv': return lambda M: numpy.array(sp.Matrix(M.tolist()).inv().tolist(), dtype=object)
        if n == 'solve': return lambda M, b: numpy.array(sp.Matrix(M.tolist()).LUsolve(sp.Matrix(numpy.asarray(b, dtype=object).tolist())).tolist(), dtype=object).reshape(numpy.shape(b))
        raise AttributeError(n)


# --------------------------------------------------------------------------------------------- op table
# each op: name -> (arity, shape rule(shapes, params) -> shape or None, implementation(ns, *vals, **params), smooth-only?)
def _same(shps, p): return shps[0]
def _bc(shps, p):
    try: return tuple(numpy.broadcast_shapes(*shps))
    except ValueError: return None

OPS = {}
def op(name, arity, rule, poly=False, needs=None):
    def deco(f): OPS[name] = dict(arity=arity, rule=rule, f=f, poly=poly, needs=needs); return f
    return deco

for nm in ('exp', 'sin', 'cos', 'tanh', 'sinh', 'cosh', 'arctan', 'expm1'):
    op(nm, 1, _same)(lambda ns, a, _n=nm: getattr(ns, _n)(a))
op('tan_s', 1, _same)(lambda ns, a: ns.tan(0.5 * ns.sin(a)))
# special functions (reverse mode of these is only exercised through programs)
for nm in ('erf', 'erfi', 'dawsn', 'expit'):
    op(nm, 1, _same)(lambda ns, a, _n=nm: getattr(ns.special, _n)(a))
op('logit_s', 1, _same)(lambda ns, a: ns.special.logit(0.5 + 0.3 * ns.sin(a)))
op('gammaln_p', 1, _same)(lambda ns, a: ns.special.gammaln(a * a + 1.0)); op('psi_p', 1, _same)(lambda ns, a: ns.special.psi(a * a + 1.0))
op('polygamma1_p', 1, _same)(lambda ns, a: ns.special.polygamma(1, a * a + 1.0)); op('hyperu_p', 1, _same)(lambda ns, a: ns.special.hyperu(1.5, 0.5, a * a + 0.5))
op('clip_in', 1, _same)(lambda ns, a: ns.special.botched_clip(-5.0, 5.0, a)); op('clip_out', 1, _same)(lambda ns, a: ns.special.botched_clip(5.0, 6.0, a) + a)
op('sign_p', 1, _same)(lambda ns, a: ns.sign(a * a + 0.5) * a)
op('square', 1, _same, poly=True)(lambda ns, a: ns.square(a))
op('negative', 1, _same, poly=True)(lambda ns, a: ns.negative(a))
op('neg', 1, _same, poly=True)(lambda ns, a: -a)
# real / imaginary part and conjugate of real data (identity, zero, identity): their pullbacks must accumulate like every other one
op('real', 1, _same)(lambda ns, a: ns.real(a)); op('imag_p', 1, _same)(lambda ns, a: ns.imag(a) + a); op('conjugate', 1, _same)(lambda ns, a: ns.conjugate(a))
op('log_p', 1, _same)(lambda ns, a: ns.log(a * a + 1.5))
op('log1p_p', 1, _same)(lambda ns, a: ns.log1p(a * a))
op('sqrt_p', 1, _same)(lambda ns, a: ns.sqrt(a * a + 0.5))
op('recip_p', 1, _same)(lambda ns, a: ns.reciprocal(a * a + 1.0))
op('rdiv_p', 1, _same)(lambda ns, a: 2.0 / (a * a + 1.0))
op('arcsin_s', 1, _same)(lambda ns, a: ns.arcsin(0.5 * ns.sin(a)))
op('pow2', 1, _same, poly=True)(lambda ns, a: a ** 2)
op('pow3', 1, _same, poly=True)(lambda ns, a: a ** 3)
op('pow4', 1, _same, poly=True)(lambda ns, a: a ** 4)
op('pow_neg2', 1, _same)(lambda ns, a: (a * a + 1.0) ** (-2))
op('pow_half', 1, _same)(lambda ns, a: (a * a + 1.0) ** 0.5)
op('pow_real', 1, _same)(lambda ns, a: (a * a + 1.0) ** 1.7)
op('abs_p', 1, _same)(lambda ns, a: ns.absolute(a * a + 1.0))

op('add', 2, _bc, poly=True)(lambda ns, a, b: a + b)
op('sub', 2, _bc, poly=True)(lambda ns, a, b: a - b)
op('mul', 2, _bc, poly=True)(lambda ns, a, b: a * b)
op('div_p', 2, _bc)(lambda ns, a, b: a / (b * b + 1.0))
op('self_mul', 1, _same, poly=True)(lambda ns, a: a * a)
op('self_add', 1, _same, poly=True)(lambda ns, a: a + a)
op('self_div', 1, _same)(lambda ns, a: (a * a + 1.0) / (a * a + 1.0))

# constants: params c = python float / int / numpy scalar / ndarray (shape given)
def _cshape(shps, p):
    c = p['c']
    cs = numpy.shape(c)
    try: return tuple(numpy.broadcast_shapes(shps[0], cs))
    except ValueError: return None
op('c_add', 1, _cshape, poly=True)(lambda ns, a, c: c + a)
op('add_c', 1, _cshape, poly=True)(lambda ns, a, c: a + c)
op('c_sub', 1, _cshape, poly=True)(lambda ns, a, c: c - a)
op('sub_c', 1, _cshape, poly=True)(lambda ns, a, c: a - c)
op('c_mul', 1, _cshape, poly=True)(lambda ns, a, c: c * a)
op('mul_c', 1, _cshape, poly=True)(lambda ns, a, c: a * c)
op('div_c', 1, _cshape, poly=True)(lambda ns, a, c: a / (c * c + 1.0))
op('c_div_p', 1, _cshape)(lambda ns, a, c: c / (a * a + 1.0))

# indexing / views / shape manipulation
def _idx(shps, p):
    try: return numpy.empty(shps[0])[p['sl']].shape
    except (IndexError, ValueError): return None
op('getitem', 1, _idx, poly=True)(lambda ns, a, sl: a[sl])
def _resh(shps, p):
    try: return numpy.empty(shps[0]).reshape(p['shape']).shape
    except ValueError: return None
op('reshape', 1, _resh, poly=True)(lambda ns, a, shape: ns.reshape(a, shape))
op('transpose', 1, lambda s, p: tuple(reversed(s[0])) if len(s[0]) == 2 else None, poly=True)(lambda ns, a: a.T)
def _sum(shps, p):
    ax = p.get('axis')
    try: return numpy.empty(shps[0]).sum(axis=ax).shape
    except Exception: return None
op('sum', 1, _sum, poly=True)(lambda ns, a, axis=None: ns.sum(a, axis=axis))
def _dot(shps, p):
    a, b = shps
    if len(a) == 0 or len(b) == 0 or len(a) > 2 or len(b) > 2: return None
    try: return numpy.dot(numpy.empty(a), numpy.empty(b)).shape
    except ValueError: return None
op('dot', 2, _dot, poly=True)(lambda ns, a, b: ns.dot(a, b))
def _dotc(shps, p):
    a = shps[0]; c = numpy.shape(p['c'])
    if len(a) == 0 or len(a) > 2: return None
    try: return (numpy.dot(numpy.empty(a), numpy.empty(c)) if p.get('side', 'r') == 'r' else numpy.dot(numpy.empty(c), numpy.empty(a))).shape
    except ValueError: return None
op('dot_c', 1, _dotc, poly=True)(lambda ns, a, c, side='r': ns.dot(a, c) if side == 'r' else ns.dot(c, a))
op('outer', 2, lambda s, p: (s[0][0], s[1][0]) if len(s[0]) == 1 and len(s[1]) == 1 else None, poly=True)(lambda ns, a, b: ns.outer(a, b))
op('trace', 1, lambda s, p: () if len(s[0]) == 2 else None, poly=True)(lambda ns, a: ns.trace(a))

# buffers: allocate, write entries (also twice), read
def _buf(shps, p): return (p['n'],)
@op('buffer', 1, _buf, poly=True)
def _buffer(ns, a, n, writes):
    """b = zeros(n, dtype=a); for (i, kind, j) in writes: b[i] = f(a[j], b)   -- includes overwriting an entry twice"""
    b = ns.zeros(n, dtype=a)
    for (i, kind, j) in writes:
        if kind == 'copy': b[i] = a[j]
        elif kind == 'sq': b[i] = a[j] * a[j]
        elif kind == 'acc': b[i] = b[i] * a[j] + a[j]
        elif kind == 'const': b[i] = 2.5
        elif kind == 'mix': b[i] = b[(i + 1) % n] + 3.0 * a[j]
    return b

@op('buffer_views', 1, lambda s, p: {'read': (2,), 'write': (3,), 'rewrite': (2,), 'reread': (2,)}[p['mode']], poly=True)
def _buffer_views(ns, a, mode):
    """aliasing patterns: a view taken BEFORE the write and read afterwards; a write THROUGH a view, read through the buffer;
    an entry overwritten several times and then read by a non-linear operation; the same basic index read before and after a write
    that went through an aliasing handle"""
    if mode == 'rewrite':
        y = ns.zeros(2, dtype=a)
        y[0] = a[0] * a[1]
        y[0] = y[0] * a[2]              # second write into the same slot
        y[1] = y[0] * y[0] + a[3]       # non-linear use of the slot after its last write
        return y
    if mode == 'reread':
        b = ns.zeros((2, 2), dtype=a)
        b[0, 1] = a[0] * a[1]
        r1 = b[0, 1]
        t = r1 * a[2] + 1.0             # uses the first value
        row = b[0]
        row[1] = t                      # overwrite through another handle of the same memory
        r2 = b[0, 1]                    # the identical index again: must see the new value
        out = ns.zeros(2, dtype=a)
        out[0] = r2 * a[3]
        out[1] = t
        return out
    b = ns.zeros(3, dtype=a)
    if mode == 'read':
        v = b[0:2]                      # view first
        b[0] = a[0] * a[1]              # then write into the buffer
        b[1] = a[2] + 1.5
        return v                        # the result is seen only through the view
    w = b[1:3]
    w[0] = a[0] * a[2]                  # write through the view
    b[0] = a[1]
    w[1] = w[0] * a[3]
    return b                            # read through the buffer

# data movement on matrices / vectors and the matrix factorizations (reverse mode of these is only exercised through programs)
def _sqs(s, p): return s[0] if len(s[0]) == 2 and s[0][0] == s[0][1] else None
def _spd(ns, a): return ns.dot(a, a.T) + _eye(ns, a)
def _shifted(ns, a): return a + _eye(ns, a)
def _symd(ns, a):
    n = numpy.shape(a)[0]; return a + a.T + numpy.diag(2.0 * numpy.arange(1., n + 1))        # symmetric with well separated eigenvalues
op('tile2', 1, lambda s, p: (2 * s[0][0],) if len(s[0]) == 1 else None)(lambda ns, a: ns.tile(a, 2))
op('diag_v', 1, lambda s, p: (s[0][0], s[0][0]) if len(s[0]) == 1 else None)(lambda ns, a: ns.diag(a))
op('diag_m', 1, lambda s, p: (min(s[0]),) if len(s[0]) == 2 else None)(lambda ns, a: ns.diag(a))
op('triu', 1, _sqs)(lambda ns, a: ns.triu(a)); op('tril', 1, _sqs)(lambda ns, a: ns.tril(a))
op('symvec', 1, lambda s, p: ((s[0][0] * (s[0][0] + 1)) // 2,) if _sqs(s, p) else None)(lambda ns, a: ns.symvec(a + a.T))
op('vecsym', 1, lambda s, p: {3: (2, 2), 6: (3, 3)}.get(s[0][0]) if len(s[0]) == 1 else None)(lambda ns, a: ns.vecsym(a))
op('det_p', 1, lambda s, p: () if _sqs(s, p) else None)(lambda ns, a: ns.det(_spd(ns, a)))
op('logdet_p', 1, lambda s, p: () if _sqs(s, p) else None)(lambda ns, a: ns.logdet(_spd(ns, a)))
op('cholesky_p', 1, _sqs)(lambda ns, a: ns.cholesky(_spd(ns, a)))
op('qr_Q', 1, _sqs)(lambda ns, a: ns.qr(_shifted(ns, a))[0]); op('qr_R', 1, _sqs)(lambda ns, a: ns.qr(_shifted(ns, a))[1])
op('eigh_l', 1, lambda s, p: (s[0][0],) if _sqs(s, p) else None)(lambda ns, a: ns.eigh(_symd(ns, a))[0]); op('eigh_Q', 1, _sqs)(lambda ns, a: ns.eigh(_symd(ns, a))[1])
op('svd_s', 1, lambda s, p: (s[0][0],) if _sqs(s, p) else None)(lambda ns, a: ns.svd(_shifted(ns, a))[1])
op('svd_U', 1, _sqs)(lambda ns, a: ns.svd(_shifted(ns, a))[0]); op('svd_V', 1, _sqs)(lambda ns, a: ns.svd(_shifted(ns, a))[2])
op('lu_L', 1, _sqs)(lambda ns, a: ns.lu(_shifted(ns, a))[1]); op('lu_U', 1, _sqs)(lambda ns, a: ns.lu(_shifted(ns, a))[2])
op('qrfull_R', 1, _sqs)(lambda ns, a: ns.qr_full(_shifted(ns, a))[1])
op('fft_re', 1, lambda s, p: s[0] if len(s[0]) == 1 else None)(lambda ns, a: ns.real(ns.fft.fft(a)) if hasattr(ns.A, 'fft') else numpy.real(numpy.fft.fft(a)))
op('ifft_im', 1, lambda s, p: s[0] if len(s[0]) == 1 else None)(lambda ns, a: ns.imag(ns.fft.ifft(a)) if hasattr(ns.A, 'fft') else numpy.imag(numpy.fft.ifft(a)))
op('ifft_re', 1, lambda s, p: s[0] if len(s[0]) == 1 else None)(lambda ns, a: ns.real(ns.fft.ifft(a)) if hasattr(ns.A, 'fft') else numpy.real(numpy.fft.ifft(a)))
op('fft_im', 1, lambda s, p: s[0] if len(s[0]) == 1 else None)(lambda ns, a: ns.imag(ns.fft.fft(a)) if hasattr(ns.A, 'fft') else numpy.imag(numpy.fft.fft(a)))
op('prod', 1, lambda s, p: () if len(s[0]) == 1 else None)(lambda ns, a: ns.prod(a))
MATRIX_OPS = ('diag_m', 'triu', 'tril', 'symvec', 'det_p', 'logdet_p', 'cholesky_p', 'qr_Q', 'qr_R', 'eigh_l', 'eigh_Q', 'svd_s', 'svd_U', 'svd_V', 'lu_L', 'lu_U', 'qrfull_R')

# small linear algebra on a well-conditioned matrix built from the input
def _sq(shps, p): return shps[0] if len(shps[0]) == 2 and shps[0][0] == shps[0][1] else None
op('inv_p', 1, _sq)(lambda ns, a: ns.inv(ns.dot(a, a.T) + _eye(ns, a)))
op('solve_p', 2, lambda s, p: (s[1] if len(s[1]) == 2 else (s[1][0], 1)) if len(s[0]) == 2 and s[0][0] == s[0][1] and len(s[1]) in (1, 2) and s[1][0] == s[0][0] else None)(
    lambda ns, a, b: ns.solve(ns.dot(a, a.T) + _eye(ns, a), b if numpy.ndim(b) == 2 else ns.reshape(b, (numpy.shape(b)[0], 1))))
def _eye(ns, a):
    n = numpy.shape(a)[0]; return 3.0 * numpy.eye(n)


class Program:
    def __init__(self, N, stmts, name=''):
        self.N, self.stmts, self.name = N, stmts, name
    def shapes(self):
        shp = {0: (self.N,)}
        for (dst, opn, args, params) in self.stmts:
            r = OPS[opn]['rule']([shp[a] for a in args], params)
            if r is None: return None
            shp[dst] = tuple(r)
        return shp
    def out_shape(self): return self.shapes()[self.stmts[-1][0]]
    def is_poly(self): return all(OPS[s[1]]['poly'] for s in self.stmts)
    def run(self, ns, x, trace=None):
        env = {0: x}
        for (dst, opn, args, params) in self.stmts:
            env[dst] = OPS[opn]['f'](ns, *[env[a] for a in args], **params)
            if trace is not None: trace.append((dst, opn))
        return env[self.stmts[-1][0]]
    def describe(self):
        def pp(p):
            out = {}
            for k, v in p.items(): out[k] = v.tolist() if isinstance(v, numpy.ndarray) else (str(v) if isinstance(v, (slice, tuple)) else v)
            return out
        return {'name': self.name, 'N': self.N, 'stmts': [[d, o, list(a), pp(p)] for d, o, a, p in self.stmts]}
    def key(self): return repr(self.describe())


def constants(N, rng):
    return [2, 1.5, numpy.float64(0.75), numpy.arange(1, N + 1, dtype=float) / 2.0, numpy.int64(3)]


def _mat(N):
    """statements building an (n,n) matrix (variable 1) from the input without using any other differentiable op"""
    n = int(round(N ** 0.5)); assert n * n == N, 'matrix programs need a square N'
    return [(1, 'reshape', (0,), {'shape': (n, n)})], n


def single_op_programs(N=4):
    """every op at least once, in a minimal context (vector input; matrices via reshape of the input)"""
    out = []
    cs = constants(N, None)
    mat, n = _mat(N)
    for nm, o in OPS.items():
        if nm in ('getitem', 'reshape', 'sum', 'buffer', 'dot_c', 'buffer_views'): continue
        if o['arity'] == 1 and 'c' not in o['f'].__code__.co_varnames[:3]:
            if nm == 'vecsym': out.append(Program(N, [(1, 'getitem', (0,), {'sl': slice(0, 3)}), (2, 'vecsym', (1,), {})], nm)); continue
            if nm in ('transpose', 'trace', 'inv_p') + MATRIX_OPS:
                out.append(Program(N, mat + [(2, 'add_c', (1,), {'c': numpy.arange(N, dtype=float).reshape(n, n) / 4.0}), (3, nm, (2,), {})], nm))
            else: out.append(Program(N, [(1, nm, (0,), {})], nm))
        elif o['arity'] == 1:
            for k, c in enumerate(cs): out.append(Program(N, [(1, nm, (0,), {'c': c})], '%s[c%d]' % (nm, k)))
            out.append(Program(N, [(1, nm, (0,), {'c': numpy.arange(2 * N, dtype=float).reshape(2, N) / 3.0 + 0.25})], nm + '[c2d]'))   # constant with more dims than the polynomial
        elif o['arity'] == 2:
            if nm == 'solve_p':
                out.append(Program(N, mat + [(2, 'getitem', (0,), {'sl': slice(0, n)}), (3, 'solve_p', (1, 2), {})], nm))
                out.append(Program(N, mat + [(2, 'sin', (1,), {}), (3, 'solve_p', (1, 2), {})], nm + '[mat]'))
            elif nm == 'outer': out.append(Program(N, [(1, 'sin', (0,), {}), (2, 'outer', (0, 1), {})], nm))
            elif nm == 'dot':
                out.append(Program(N, [(1, 'sin', (0,), {}), (2, 'dot', (0, 1), {})], 'dot[v,v]'))
                out.append(Program(N, mat + [(2, 'getitem', (0,), {'sl': slice(0, n)}), (3, 'dot', (1, 2), {})], 'dot[M,v]'))
                out.append(Program(N, mat + [(2, 'getitem', (0,), {'sl': slice(0, n)}), (3, 'dot', (2, 1), {})], 'dot[v,M]'))
                out.append(Program(N, mat + [(2, 'sin', (1,), {}), (3, 'dot', (1, 2), {})], 'dot[M,M]'))
            else: out.append(Program(N, [(1, 'sin', (0,), {}), (2, nm, (0, 1), {})], nm))
    for sl in (0, -1, slice(1, None), slice(None, None, -1), slice(None, None, 2), Ellipsis, (slice(0, 2),), numpy.newaxis):
        out.append(Program(N, [(1, 'sin', (0,), {}), (2, 'getitem', (1,), {'sl': sl})], 'getitem[%s]' % (sl,)))
    # index arrays / boolean masks (copies: their adjoint is accumulated, repeated indices included); the same selection taken twice
    for nm_, sl in (('ia', [0, 2]), ('ia-repeated', [0, 0, 3]), ('mask', numpy.array([True, False, True, True]))):
        out.append(Program(N, [(1, 'sin', (0,), {}), (2, 'getitem', (1,), {'sl': sl})], 'getitem[%s]' % nm_))
        out.append(Program(N, [(1, 'sin', (0,), {}), (2, 'getitem', (1,), {'sl': sl}), (3, 'getitem', (1,), {'sl': sl}), (4, 'mul', (2, 3), {})], 'getitem[%s]x2' % nm_))
    for sl in ((0, 1), (slice(None), 1), (1, slice(None)), (slice(None, None, -1), slice(0, 2)), (Ellipsis, 0), -1):
        out.append(Program(N, mat + [(2, 'getitem', (1,), {'sl': sl})], 'getitem2d[%s]' % (sl,)))
    for shape in ((N, 1), (1, N), (-1,)):
        out.append(Program(N, [(1, 'sin', (0,), {}), (2, 'reshape', (1,), {'shape': shape})], 'reshape%s' % (shape,)))
    # trace and diagonal of non-square matrices (NumPy: the first min(M, N) diagonal entries)
    for shape in ((N, 1), (1, N)):
        for nm_ in ('trace', 'diag_m'):
            out.append(Program(N, [(1, 'sin', (0,), {}), (2, 'reshape', (1,), {'shape': shape}), (3, nm_, (2,), {})], '%s[%dx%d]' % ((nm_,) + shape)))
    out.append(Program(N, mat + [(2, 'transpose', (1,), {}), (3, 'reshape', (2,), {'shape': (N,)})], 'reshape[noncontig]'))
    out.append(Program(N, [(1, 'sin', (0,), {}), (2, 'sum', (1,), {})], 'sum'))
    for ax in (0, 1, -1, None):
        out.append(Program(N, mat + [(2, 'sum', (1,), {'axis': ax})], 'sum2d[axis=%s]' % ax))
    M = numpy.arange(N * 2, dtype=float).reshape(N, 2) / 5.0 + 0.1
    Mn = numpy.arange(n * 3, dtype=float).reshape(n, 3) / 5.0 + 0.1
    out.append(Program(N, [(1, 'dot_c', (0,), {'c': M, 'side': 'r'})], 'dot_c[v,C]'))
    out.append(Program(N, [(1, 'dot_c', (0,), {'c': M.T.copy(), 'side': 'l'})], 'dot_c[C,v]'))
    out.append(Program(N, mat + [(2, 'dot_c', (1,), {'c': Mn, 'side': 'r'})], 'dot_c[M,C]'))
    out.append(Program(N, mat + [(2, 'dot_c', (1,), {'c': Mn.T.copy(), 'side': 'l'})], 'dot_c[C,M]'))
    out.append(Program(N, mat + [(2, 'dot_c', (1,), {'c': numpy.arange(1., n + 1), 'side': 'r'})], 'dot_c[M,c1d]'))
    out.append(Program(N, mat + [(2, 'dot_c', (1,), {'c': numpy.arange(1., n + 1), 'side': 'l'})], 'dot_c[c1d,M]'))
    for k, writes in enumerate([[(0, 'copy', 0), (1, 'sq', 1)], [(0, 'copy', 0), (0, 'acc', 1), (1, 'copy', 2 % N)], [(0, 'sq', 0), (0, 'acc', 1), (0, 'acc', 0)],
                                [(0, 'const', 0), (1, 'mix', 1), (0, 'copy', 0)], [(1, 'copy', 0), (0, 'mix', 1), (1, 'acc', 1)]]):
        out.append(Program(N, [(1, 'buffer', (0,), {'n': 2, 'writes': writes})], 'buffer%d' % k))
    # views of INTERMEDIATE results that NumPy can only reshape by copying (their adjoints are non-owning copies, not views)
    out.append(Program(N, mat + [(2, 'self_mul', (1,), {}), (3, 'transpose', (2,), {}), (4, 'reshape', (3,), {'shape': (N,)}), (5, 'exp', (4,), {})], 'reshape[transposed intermediate]'))
    out.append(Program(N, mat + [(2, 'exp', (1,), {}), (3, 'transpose', (2,), {}), (4, 'reshape', (3,), {'shape': (N,)}), (5, 'mul_c', (4,), {'c': numpy.arange(1., N + 1)})], 'reshape[transposed exp]'))
    for mode in ('read', 'write', 'rewrite', 'reread'):
        out.append(Program(N, [(1, 'buffer_views', (0,), {'mode': mode})], 'buffer_views[%s]' % mode))
        out.append(Program(N, [(1, 'sin', (0,), {}), (2, 'buffer_views', (1,), {'mode': mode}), (3, 'exp', (2,), {})], 'buffer_views[%s]+' % mode))
    # fan-out variants: the argument of the op has a SECOND consumer that is swept before the op (its adjoint contribution is already
    # in the argument's adjoint when the op's pullback runs -- a pullback that assigns instead of accumulating loses it)
    fan = []
    for p in out:
        st = p.stmts
        if len(st) >= 1 and OPS[st[-1][1]]['arity'] == 1 and not p.name.startswith(('buffer', 'reshape[')):
            k = st[-1][0]; arg = st[-1][2][0]
            fan.append(Program(N, list(st) + [(k + 1, 'sum', (arg,), {}), (k + 2, 'mul', (k, k + 1), {})], p.name + '+fanout'))
    out += fan
    return [p for p in out if p.shapes() is not None]


def random_programs(n, rng, N=3, maxlen=5, poly_only=False):
    out = []; names = [k for k, o in OPS.items() if (o['poly'] or not poly_only) and k not in ('inv_p', 'solve_p', 'buffer_views')]
    tries = 0
    while len(out) < n and tries < n * 60:
        tries += 1
        stmts = []; shp = {0: (N,)}; L = rng.randint(2, maxlen)
        for i in range(1, L + 1):
            for _ in range(12):
                nm = rng.choice(names); o = OPS[nm]
                args = tuple(rng.choice(list(shp)) if rng.random() < 0.35 else max(shp) for _ in range(o['arity']))
                params = {}
                vs = o['f'].__code__.co_varnames[:o['f'].__code__.co_argcount]
                if 'c' in vs: params['c'] = rng.choice(constants(N, rng))
                if nm == 'getitem':
                    s0 = shp[args[0]]
                    if not s0: continue
                    params['sl'] = rng.choice([0, -1, slice(1, None), slice(None, None, -1)] + ([(slice(None), 0), (0, slice(None))] if len(s0) == 2 else []))
                if nm == 'reshape':
                    sz = int(numpy.prod(shp[args[0]])); params['shape'] = rng.choice([(sz,), (sz, 1), (1, sz)])
                if nm == 'sum': params['axis'] = rng.choice([None, 0, -1]) if len(shp[args[0]]) else None
                if nm == 'dot_c':
                    s0 = shp[args[0]]
                    if not s0: continue
                    params['c'] = numpy.arange(s0[-1] * 2, dtype=float).reshape(s0[-1], 2) / 4.0 + 0.5; params['side'] = 'r'
                if nm == 'buffer':
                    s0 = shp[args[0]]
                    if len(s0) != 1: continue
                    params = {'n': 2, 'writes': [(rng.randrange(2), rng.choice(['copy', 'sq', 'acc', 'mix', 'const']), rng.randrange(s0[0])) for _ in range(rng.randint(2, 4))]}
                r = o['rule']([shp[a] for a in args], params)
                if r is None or len(r) > 2 or int(numpy.prod(r) if r else 1) > 12: continue
                stmts.append((i, nm, args, params)); shp[i] = tuple(r); break
            else: break
        if len(stmts) >= 2:
            p = Program(N, stmts, 'rand%d' % len(out))
            if p.shapes() is not None: out.append(p)
    return out


def scalarize(p):
    """append sum-of-everything so the program is R^N -> R (gradient / hessian drivers)"""
    last = p.stmts[-1][0]; shp = p.out_shape()
    if shp == (): return p
    return Program(p.N, list(p.stmts) + [(last + 1, 'sum', (last,), {})], p.name + '|sum')


def vectorize(p):
    """make the output 1-D (jacobian drivers): scalar -> times x; matrix -> first row + last row"""
    last = p.stmts[-1][0]; shp = p.out_shape()
    if len(shp) == 1: return p
    if shp == (): return Program(p.N, list(p.stmts) + [(last + 1, 'mul', (last, 0), {})], p.name + '|*x')
    return Program(p.N, list(p.stmts) + [(last + 1, 'getitem', (last,), {'sl': 0}), (last + 2, 'getitem', (last,), {'sl': -1}), (last + 3, 'add', (last + 1, last + 2), {})], p.name + '|rows')
