/-
Sum lemma schemas used by the tpvc engine (vc/engine.py: SumReg / sum_facts), proved over integer intervals.
The engine writes  S(lo,hi,f) = ∑_{i=lo}^{hi} f i  (empty when hi < lo)  for f : ℤ → R, R a commutative ring
(cells = reals) or an additive commutative group (cells = matrices); these are exactly Finset.Icc sums.
Every schema below is instantiated by the engine only in skolemised / ground form.
-/
import Mathlib.Algebra.BigOperators.Intervals
import Mathlib.Algebra.BigOperators.Ring.Finset
import Mathlib.Tactic

open Finset BigOperators

variable {M : Type*} [AddCommMonoid M]

/-- empty: hi < lo → S = 0 -/
theorem sum_Icc_empty (f : ℤ → M) (lo hi : ℤ) (h : hi < lo) : ∑ i ∈ Icc lo hi, f i = 0 := by
  rw [Finset.Icc_eq_empty (by omega), Finset.sum_empty]

/-- peel last: lo ≤ hi → S(lo,hi) = S(lo,hi-1) + f hi -/
theorem sum_Icc_peel_last (f : ℤ → M) (lo hi : ℤ) (h : lo ≤ hi) :
    ∑ i ∈ Icc lo hi, f i = ∑ i ∈ Icc lo (hi - 1), f i + f hi := by
  have : Icc lo hi = insert hi (Icc lo (hi - 1)) := by
    ext x; simp only [mem_Icc, mem_insert]; omega
  rw [this, sum_insert (by simp), add_comm]

/-- peel first: lo ≤ hi → S(lo,hi) = f lo + S(lo+1,hi) -/
theorem sum_Icc_peel_first (f : ℤ → M) (lo hi : ℤ) (h : lo ≤ hi) :
    ∑ i ∈ Icc lo hi, f i = f lo + ∑ i ∈ Icc (lo + 1) hi, f i := by
  have : Icc lo hi = insert lo (Icc (lo + 1) hi) := by
    ext x; simp only [mem_Icc, mem_insert]; omega
  rw [this, sum_insert (by simp)]

/-- congruence with shift: equal lengths and f a (w) = f b (w + lob - loa) on the range → equal sums -/
theorem sum_Icc_congr_shift (fa fb : ℤ → M) (loa hia lob hib : ℤ) (hlen : hib - lob = hia - loa)
    (h : ∀ w, loa ≤ w → w ≤ hia → fa w = fb (w + lob - loa)) :
    ∑ i ∈ Icc loa hia, fa i = ∑ i ∈ Icc lob hib, fb i := by
  apply Finset.sum_bij (fun i _ => i + lob - loa)
  · intro a ha; simp only [mem_Icc] at *; omega
  · intro a _ b _ hab; omega
  · intro b hb; refine ⟨b - lob + loa, ?_, by ring⟩; simp only [mem_Icc] at *; omega
  · intro a ha; simp only [mem_Icc] at ha; exact h a ha.1 ha.2

/-- congruence with reversal: f a (v) = f b (hib - (v - loa)) on the range → equal sums -/
theorem sum_Icc_congr_reverse (fa fb : ℤ → M) (loa hia lob hib : ℤ) (hlen : hib - lob = hia - loa)
    (h : ∀ v, loa ≤ v → v ≤ hia → fa v = fb (hib - (v - loa))) :
    ∑ i ∈ Icc loa hia, fa i = ∑ i ∈ Icc lob hib, fb i := by
  apply Finset.sum_bij (fun i _ => hib - (i - loa))
  · intro a ha; simp only [mem_Icc] at *; omega
  · intro a _ b _ hab; omega
  · intro b hb; refine ⟨loa + (hib - b), ?_, by ring⟩; simp only [mem_Icc] at *; omega
  · intro a ha; simp only [mem_Icc] at ha; exact h a ha.1 ha.2

/-- zero: all terms vanish → S = 0 -/
theorem sum_Icc_zero (f : ℤ → M) (lo hi : ℤ) (h : ∀ w, lo ≤ w → w ≤ hi → f w = 0) :
    ∑ i ∈ Icc lo hi, f i = 0 := by
  apply Finset.sum_eq_zero; intro i hi'; simp only [mem_Icc] at hi'; exact h i hi'.1 hi'.2

/-- split at h (used by the `_square` contract): lo ≤ m, m ≤ hi+1 → S(lo,hi) = S(lo,m-1) + S(m,hi) -/
theorem sum_Icc_split (f : ℤ → M) (lo m hi : ℤ) (h1 : lo ≤ m) (h2 : m ≤ hi + 1) :
    ∑ i ∈ Icc lo hi, f i = ∑ i ∈ Icc lo (m - 1), f i + ∑ i ∈ Icc m hi, f i := by
  have hd : Disjoint (Icc lo (m - 1)) (Icc m hi) := by
    rw [Finset.disjoint_left]; intro x hx hy; simp only [mem_Icc] at *; omega
  have hu : Icc lo hi = Icc lo (m - 1) ∪ Icc m hi := by
    ext x; simp only [mem_Icc, mem_union]; omega
  rw [hu, sum_union hd]

/-- linearity (coefficient normalisation in SumReg.Sum): ∑ c * f = c * ∑ f -/
theorem sum_Icc_mul_left {R : Type*} [CommRing R] (c : R) (f : ℤ → R) (lo hi : ℤ) :
    ∑ i ∈ Icc lo hi, c * f i = c * ∑ i ∈ Icc lo hi, f i := by
  rw [Finset.mul_sum]

/-- additive inverse commutes with the sum (used for the accumulated right-hand side of `_solve`) -/
theorem sum_Icc_neg {G : Type*} [AddCommGroup G] (f : ℤ → G) (lo hi : ℤ) :
    ∑ i ∈ Icc lo hi, -f i = -∑ i ∈ Icc lo hi, f i := by
  rw [Finset.sum_neg_distrib]

/-! ## Causality: from the induction step (an SMT-discharged lemma obligation per spec function) to the theorem
    (assumption A8b of DESIGN.md: the instances used by vc/dataflow.py are instances of these conclusions) -/

theorem causality_of_step {α : Type} (T : (ℕ → α) → ℕ → α)
    (step : ∀ a b n, (∀ i, i ≤ n → a i = b i) → (∀ m, m < n → T a m = T b m) → T a n = T b n) :
    ∀ a b n, (∀ i, i ≤ n → a i = b i) → T a n = T b n := by
  intro a b n
  induction n using Nat.strong_induction_on with
  | _ n ih =>
    intro h
    exact step a b n h (fun m hm => ih m hm (fun i hi => h i (le_trans hi (le_of_lt hm))))

/-- two spec functions defined by a joint recursion (sin/cos, tan/sec², ...) -/
theorem causality_of_step_pair {α : Type} (S C : (ℕ → α) → ℕ → α)
    (step : ∀ a b n, (∀ i, i ≤ n → a i = b i) → (∀ m, m < n → S a m = S b m ∧ C a m = C b m) → S a n = S b n ∧ C a n = C b n) :
    ∀ a b n, (∀ i, i ≤ n → a i = b i) → S a n = S b n ∧ C a n = C b n := by
  intro a b n
  induction n using Nat.strong_induction_on with
  | _ n ih =>
    intro h
    exact step a b n h (fun m hm => ih m hm (fun i hi => h i (le_trans hi (le_of_lt hm))))

/-- two array arguments (CONV, QUOT, BFWF, the matrix Cauchy products) -/
theorem causality_of_step₂ {α : Type} (T : (ℕ → α) → (ℕ → α) → ℕ → α)
    (step : ∀ a b a' b' n, (∀ i, i ≤ n → a i = a' i ∧ b i = b' i) → (∀ m, m < n → T a b m = T a' b' m) → T a b n = T a' b' n) :
    ∀ a b a' b' n, (∀ i, i ≤ n → a i = a' i ∧ b i = b' i) → T a b n = T a' b' n := by
  intro a b a' b' n
  induction n using Nat.strong_induction_on with
  | _ n ih =>
    intro h
    exact step a b a' b' n h (fun m hm => ih m hm (fun i hi => h i (le_trans hi (le_of_lt hm))))
