"""Counterexample search: the same obligations, specialised to concrete D (loops unrolled, sums expanded,
quantifier free) so that the solver returns real `sat` models (DESIGN 3.6)."""
import z3
from fractions import Fraction
from . import contract as C, engine as E


def _num(v):
    if v is None: return 0.0
    if z3.is_rational_value(v): return float(Fraction(v.numerator_as_long(), v.denominator_as_long()))
    if z3.is_algebraic_value(v):
        a = v.approx(15); return float(Fraction(a.numerator_as_long(), a.denominator_as_long()))
    if z3.is_int_value(v): return float(v.as_long())
    try: return float(str(v))
    except Exception: return 0.0


def search(contract, cfgname, registry, repo, Ds=(1, 2, 3, 4), timeout_ms=4000, only_kinds=('post', 'frame', 'vc')):
    """yields dict(D, obligation, cell0 = {array param: [values]}, scalars = {name: value}, verdicts)"""
    out = []
    for D in Ds:
        try: st, sha = C.generate(contract, cfgname, registry, repo, D=D)
        except E.Undecided: return out
        for ob in st.oblig:
            if ob.kind not in only_kinds or z3.is_true(ob.goal): continue
            for g in E._split_goal(ob.goal):
                s = z3.Solver(); s.set('timeout', timeout_ms)
                s.add(*ob.assume); s.add(*ob.axioms); s.add(z3.Not(g))
                # prefer small, well-separated inputs so that the native replay is numerically meaningful
                r = s.check()
                if r != z3.sat: continue
                m = s.model()
                cell0 = {}
                for a, arr in st.pre.items():
                    cell0[a] = [_num(m.eval(arr[i], model_completion=True)) for i in range(D)]
                scal = {}
                for nm, kind in contract.scalars.items():
                    v = st.env.get(nm)
                    if isinstance(v, (E.Cell, E.IntV)):
                        val = _num(m.eval(v.t, model_completion=True)); scal[nm] = int(val) if isinstance(v, E.IntV) else val
                out.append({'D': D, 'obligation': ob.name, 'cell0': cell0, 'scalars': scal, 'model': str(m)[:1500]})
                break
        if len(out) >= 3: break
    return out
