"""All-D verification of *composite* kernels (functions that only combine other kernels): the spec-view chain.

For every array `O` written by a callee whose contract says  forall j in [lo,hi). O[j] == RHS(inputs, j)  the chain derives the
*spec view*  SV(O) = lambda j. RHS(SV(inputs), j):  a closed expression over the entry arrays of the composite.  The hint lemma
        forall j in [lo,hi).  O[j] == SV(O)[j]
is an obligation of its own (proved from the callee's postcondition and the hint lemmas of the earlier callees); afterwards it is
available as a fact.  The step from  T(h, j)  (h: the heap array handed to the callee) to  T(SV(h), j)  needs that a spec function's
coefficient j depends on the coefficients <= j of its array arguments only -- the *causality theorem* of T, whose induction step is
itself a discharged obligation (contracts/spec.py: causality_lemma*, property C12) and whose instances are supplied here:
        (forall i. 0 <= i <= n -> a[i] == b[i])  ->  T(a, n) == T(b, n).
Assumption recorded in the evidence (A-IND): strong induction over n turns the proved step into the theorem (Lean: Nat.strong_induction_on)."""
import z3
from . import engine as E


def _match_pointwise(f):
    """forall j. ante(j) -> O[j] == RHS(j)   ->  (O, ante as function, RHS as function) or None"""
    if not (z3.is_quantifier(f) and f.is_forall() and f.num_vars() == 1): return None
    b = f.body()
    if not z3.is_implies(b): return None
    ante, eq = b.arg(0), b.arg(1)
    if not z3.is_eq(eq): return None
    lhs, rhs = eq.arg(0), eq.arg(1)
    if not (z3.is_select(lhs) and z3.is_var(lhs.arg(1)) and z3.get_var_index(lhs.arg(1)) == 0): return None
    O = lhs.arg(0)
    if not (z3.is_const(O) and O.decl().kind() == z3.Z3_OP_UNINTERPRETED): return None
    return O, (lambda t: z3.substitute_vars(ante, t)), (lambda t: z3.substitute_vars(rhs, t))


def _apps(t, names, acc=None, seen=None):
    """applications of the causal spec functions in t, in a deterministic traversal order"""
    if acc is None: acc, seen = [], set()
    if t.get_id() in seen: return acc
    seen.add(t.get_id())
    if z3.is_quantifier(t): return _apps(t.body(), names, acc, seen)
    if z3.is_app(t):
        if t.decl().kind() == z3.Z3_OP_UNINTERPRETED and t.decl().name() in names and t.num_args() >= 2 and not _has_free_var(t): acc.append(t)
        for c in t.children(): _apps(c, names, acc, seen)
    return acc


def _has_free_var(t, depth=0, seen=None):
    """does the term contain a de Bruijn variable that is not bound inside it?"""
    if seen is None: seen = set()
    key = (t.get_id(), depth)
    if key in seen: return False
    seen.add(key)
    if z3.is_var(t): return z3.get_var_index(t) >= depth
    if z3.is_quantifier(t): return _has_free_var(t.body(), depth + t.num_vars(), seen)
    return any(_has_free_var(c, depth, seen) for c in t.children())


def causal_instance(CAUSAL, a, b):
    """a, b: applications T(args.., n) of the same causal spec function -> the instance of T's causality theorem, or None"""
    if not z3.eq(a.decl(), b.decl()) or z3.eq(a, b): return None
    T, dom = CAUSAL[a.decl().name()]
    na, nb = a.arg(a.num_args() - 1), b.arg(b.num_args() - 1)
    hyp = [na == nb, na >= 0]; arrs_a = []
    E_i = z3.Int('i!causal')
    for k in range(a.num_args() - 1):
        x, y = a.arg(k), b.arg(k)
        if x.sort().kind() == z3.Z3_ARRAY_SORT:
            arrs_a.append(x)
            if not z3.eq(x, y): hyp.append(z3.ForAll([E_i], z3.Implies(z3.And(0 <= E_i, E_i <= na), x[E_i] == y[E_i])))
        elif not z3.eq(x, y): hyp.append(x == y)
    hyp += list(dom(*arrs_a))
    return z3.Implies(z3.And(*hyp), a == b)


def chain(st, CAUSAL, mk_ctx):
    """appends the hint obligations to st.oblig and the proved hints to st.assume; returns the spec-view map [(O, SV(O))]"""
    names = set(CAUSAL)
    svmap = []
    for (con, sub) in st.callee_log:
        for f in getattr(sub, 'ensured', ()):
            m = _match_pointwise(f)
            if m is None: continue
            O, ante, rhs = m
            st.fresh += 1; jv = z3.Int('j!sv%d' % st.fresh)
            r0 = rhs(jv)
            r1 = z3.simplify(z3.substitute(r0, *svmap)) if svmap else r0
            SV = z3.Lambda([jv], r1)
            st.fresh += 1; sk = z3.Int('i!sk%d' % st.fresh)
            r0s, r1s = z3.substitute(r0, (jv, sk)), z3.substitute(r1, (jv, sk))
            insts = []
            A0, A1 = _apps(r0s, names), _apps(r1s, names)
            for a in A0:
                for b in A1:
                    ci = causal_instance(CAUSAL, a, b)
                    if ci is not None: insts.append(ci)
            goal = z3.Implies(ante(sk), z3.Select(O, sk) == r1s)
            st.oblig.append(E.Obligation('hint: %s output of %s = its spec view' % (O.decl().name(), con.qual.split('.')[-1]), goal, list(st.assume) + insts, len(st.reg.terms), 'hint', st.axioms, st.def_ids))
            st.fresh += 1; q = z3.Int('j!hq%d' % st.fresh)
            st.assume.append(z3.ForAll([q], z3.Implies(ante(q), z3.Select(O, q) == z3.substitute(r1, (jv, q)))))
            svmap.append((O, SV))
    return svmap


def post_instances(st, CAUSAL, svmap, goal, sk):
    """causal instances connecting spec-function applications in the postcondition with those in the spec views, at the goal skolem"""
    names = set(CAUSAL); out = []
    G = _apps(goal, names)
    H = []
    for (O, SV) in svmap: H += _apps(z3.simplify(z3.Select(SV, sk)), names)
    for a in G:
        for b in H:
            ci = causal_instance(CAUSAL, a, b)
            if ci is not None: out.append(ci)
    return out
