"""Contract objects for the tpvc/ixvc engine and the per-(function, aliasing configuration) verification driver."""
import ast, time, traceback
import z3
from . import engine as E
from .engine import I, R, Undecided, View, Cell, IntV, FuncV, ModV, ObjV, ival


class Ctx:
    """What a contract clause can see."""
    def __init__(self, ex, pre, names, goal=False):
        self.ex, self.st, self.D, self.pre, self._names, self.goal = ex, ex.st, ex.D, pre, names, goal
        self.skolems = []; self.alg = ex.st.alg; self.present = {}
    def cur(self, name):
        """array term of array parameter `name` now"""
        return self.st.heap[self._names[name]][0]
    def local(self, name):
        v = self.st.env.get(name)
        if not isinstance(v, View): raise Undecided('invariant names local %r which is not an array here' % name)
        return self.st.heap[v.base][0]
    def local_base(self, name):
        v = self.st.env.get(name)
        if not isinstance(v, View): raise Undecided('invariant names local %r which is not an array here' % name)
        return v.base
    def Sum(self, lo, hi, f): return self.st.reg.Sum(lo, hi, f)
    def scalar(self, name):
        v = self.st.env.get(name)
        if not isinstance(v, (Cell, IntV)): raise Undecided('invariant names scalar local %r which is not a scalar here' % name)
        return v.t
    def has_local(self, name): return name in self.st.env
    def scalar_any(self, name):
        v = self.st.env.get(name)
        if isinstance(v, (Cell, IntV)): return v.t
        raise Undecided('invariant names local %r which is not a scalar here' % name)
    def has(self, name): return self.present.get(name, name in self._names)
    def entry_of(self, base): return self.st.initial[base]
    def retarr(self):
        r = getattr(self, 'ret', None)
        if not isinstance(r, View): raise Undecided('function does not return an array here')
        return self.st.whole(r)
    def retdata(self, attr='data'):
        r = getattr(self, 'ret', None)
        if not isinstance(r, ObjV) or not isinstance(r.attrs.get(attr), View): raise Undecided('function does not return an object with a .%s array here' % attr)
        return self.st.whole(r.attrs[attr])
    def outarr(self, name='out'): return self.cur(name) if self.has(name) else self.retarr()
    def unchanged(self, *names):
        """the listed array parameters (those present) still hold their entry contents"""
        out = []; seen = set()
        for n in names:
            if not self.has(n) or self._names[n] in seen: continue
            seen.add(self._names[n]); cur = self.cur(n)
            if not z3.eq(cur, self.pre[n]): out.append(cur == self.pre[n])
        return out
    def forall(self, lo, hi, body, name='j'):
        """forall j. lo <= j < hi -> body(j).  Concrete ranges are expanded; goals are skolemised."""
        lo = lo if z3.is_expr(lo) else z3.IntVal(lo); hi = hi if z3.is_expr(hi) else z3.IntVal(hi)
        a, b = ival(lo), ival(hi)
        if a is not None and b is not None and b - a <= 64:
            return z3.And([body(z3.IntVal(i)) for i in range(a, b)]) if b > a else z3.BoolVal(True)
        if self.goal:
            self.st.fresh += 1; j = z3.Int('%s!sk%d' % (name, self.st.fresh)); self.skolems.append((j, lo, hi))
            return z3.Implies(z3.And(lo <= j, j < hi), body(j))
        self.st.fresh += 1; j = z3.Int('%s!q%d' % (name, self.st.fresh))
        return z3.ForAll([j], z3.Implies(z3.And(lo <= j, j < hi), body(j)))
    def toR(self, t): return z3.ToReal(t) if z3.is_int(t) else t


class Contract:
    """Base class.  Subclasses set:
         file, qual                     where the real function lives
         arrays                         names of array parameters (tuple parameters flattened as 'out.0', 'out.1')
         tuples = {'out': 2}            tuple-of-arrays parameters
         scalars = {'r': 'real'}        non-array parameters: real / int / func / none / cls / obj
         cfgs = {name: {...}}           aliasing + scalar configurations that are verified (taken from the call sites)
         modifies                       array parameter names that may be written
       and implement requires / ensures / invariants / spec_instances.
    """
    file = 'algopy/utpm/algorithms.py'
    alg = 'real'
    arrays = (); tuples = {}; scalars = {}; cfgs = {'distinct': {}}; modifies = ()
    returns = None            # name of the array parameter returned, 'fresh' or None
    lemma_depth = 1
    skolem_instances = False  # instantiate the spec definitions at the skolem constants of goals
    timeout_ms = 20000
    cex_D = (1, 2, 3, 4)
    def requires(self, c): return []
    def ensures(self, c): return []
    def invariants(self): return {}
    def skolem_for(self, cfgname): return self.skolem_instances
    def spec_instances(self, c, idx): return []          # definitional axioms of the spec functions at index idx
    def extra_axioms(self, c): return []
    def concrete_instances(self, c, D): return []       # full definitional closure of the spec functions for a concrete D (unrolled mode)
    def axioms(self, alg): return ()                    # quantified background axioms handed to every obligation of this function
    def spec_lemmas(self, c): return []                 # [(name, [assumptions], goal, [axioms])]: facts about the spec functions, proved on their own
    def cfg_assumptions(self, c, cfg): return []

    # ---- native side (replay of counterexamples, bounded stand-in); oracle = bounded/specinterp.py, never algopy
    def sample_x0(self, name, rng): return round(rng.uniform(0.3, 0.9) * 16) / 16
    def native_init(self, name, arr, cfgname): pass
    def cell_shapes(self, cfgname): return {}           # array parameter -> shape of one cell (matrix kernels); {} = scalar cells
    def native_scalars(self, cfgname, rng): return {}
    def oracle(self, inp, scal, cfgname): raise NotImplementedError
    def out_key(self, cfgname, name='out'):
        cfg = self.cfgs[cfgname]
        return 'ret' if (name in cfg and cfg[name] is None) else name

    # ---- helper used by both sides
    def _frame_params(self, cfg):
        al = self.cfgs[cfg].get('alias', {})
        mod = set(self.modifies)
        rep = lambda n: al.get(n, n)
        modreps = {rep(m) for m in mod}
        return [a for a in self.arrays if rep(a) not in modreps]


def make_alg(name):
    return {'real': E.RealAlg, 'int': E.IntAlg, 'mat': E.MatAlg}[name]()


class Result:
    def __init__(self): self.obligations = []; self.undecided = None; self.sha = None; self.wall = 0.0
    @property
    def ok(self): return self.undecided is None and all(o['verdict'] == 'unsat' for o in self.obligations)


def base_env(alg):
    return {'cls': None, 'numpy': ModV('numpy'), 'math': ModV('math'), 'scipy': ModV('scipy'), 'nthderiv': ModV('nthderiv'),
            'functools': ModV('functools'), 'pytpcore': None, 'np': ModV('numpy')}


def setup(contract, cfgname, D, registry, repo):
    """build state + executor + parameters for one configuration; returns (ex, ctx factory, fn node, sha)"""
    alg = make_alg(contract.alg)
    st = E.State(alg); st.lemma_depth = contract.lemma_depth; st.axioms = tuple(contract.axioms(alg))
    Dt = z3.Int('D') if D is None else z3.IntVal(D)
    if D is None: st.assume.append(Dt >= 1)
    fn, seg, sha = E.load_function(repo, contract.file, contract.qual)
    cfg = contract.cfgs[cfgname]; alias = cfg.get('alias', {})
    names = {}; pre = {}
    callees = {}
    for nm, cc in registry.items(): callees[nm] = Callee(cc, registry, repo)
    ex = E.Exec(st, Dt, {}, callees)
    st.env.update(base_env(alg))
    # parameters, in the order of the real signature
    sig = [a.arg for a in fn.args.args]
    declared = set(contract.arrays) | set(contract.tuples) | set(contract.scalars) | set(getattr(contract, 'objs', ())) | set(getattr(contract, 'objtuples', {})) | {'cls', 'self'}
    flat = set(a.split('.')[0] for a in contract.arrays)
    for p in sig:
        if p not in declared and p not in flat: raise Undecided('parameter %r of %s is not described by the contract' % (p, contract.qual))
    for a in contract.arrays:
        tgt = alias.get(a, a)
        if tgt != a and tgt in names: names[a] = names[tgt]
        else: names[a] = st.new_base(Dt, name=a.replace('.', '_'))
        pre[a] = st.heap[names[a]][0]
    for a in contract.arrays:
        if '.' not in a: st.env[a] = View(names[a], z3.IntVal(0), 1, Dt)
    for o in getattr(contract, 'objs', ()):                 # object parameters (UTPM instances): attribute arrays named '<obj>.<attr>'
        attrs = {a.split('.', 1)[1]: View(names[a], z3.IntVal(0), 1, Dt) for a in contract.arrays if a.startswith(o + '.')}
        st.env[o] = ObjV('UTPM', attrs)
    for t, k in getattr(contract, 'objtuples', {}).items():       # tuple-of-objects parameters (`out=(xbar,)` of the pullback wrappers): arrays named '<t>.<i>.data'
        if cfg.get(t, 'given') is None: st.env[t] = None
        else: st.env[t] = tuple(ObjV('UTPM', {'data': View(names['%s.%d.data' % (t, i)], z3.IntVal(0), 1, Dt)}) for i in range(k))
    st.env.setdefault('UTPM', E.TypeV('UTPM')); st.env.setdefault('operator', ModV('operator'))
    for t, k in contract.tuples.items():
        if cfg.get(t, 'given') is None: st.env[t] = None
        else: st.env[t] = tuple(View(names['%s.%d' % (t, i)], z3.IntVal(0), 1, Dt) for i in range(k))
    for a in contract.arrays:
        if '.' not in a and a in cfg and cfg[a] is None: st.env[a] = None
    for s, kind in contract.scalars.items():
        val = cfg.get(s, kind)
        if val is None or val == 'none': st.env[s] = None
        elif val == 'real': st.env[s] = Cell(z3.Real(s))
        elif val == 'int': st.env[s] = IntV(z3.Int(s))
        elif isinstance(val, int): st.env[s] = IntV(val)
        elif val == 'func': st.env[s] = FuncV(s)
        elif val == 'cell': st.env[s] = Cell(z3.Const(s, alg.sort))
        elif val == 'ndarray': st.env[s] = E.NdV(z3.Const(s, alg.sort))
        else: raise Undecided('scalar kind %r' % (val,))
    present = {a: (st.env.get(a.split('.')[0]) is not None) for a in contract.arrays}
    def mk(goal=False):
        c = Ctx(ex, pre, names, goal); c.present = present; return c
    return ex, mk, fn, sha, names, pre


cfgname_holder = [None]


def wrap_inv(contract, mk, f, k):
    def inv(ex, idx, goal=False):
        c = mk(goal); c.ex = ex; c.loop = getattr(ex, 'loop_nodes', {}).get(k)
        lb = getattr(ex, 'loop_bounds', {}).get(k)
        # iterations completed before the iteration with index idx: independent of how the loop is indexed (range(n) / range(1, n+1) / ...)
        c.iters = None if lb is None else ((idx - lb[0]) if not lb[2] else (lb[1] - 1 - idx))
        try: parts = f(c, idx)
        except (KeyError, AttributeError, TypeError) as e:
            raise Undecided('the invariant of loop%s refers to program state that does not exist (any more): %s: %s' % (k, type(e).__name__, e))
        if goal and contract.skolem_for(cfgname_holder[0]):
            for (j, lo, hi) in c.skolems:
                ex.st.add_defs(contract.spec_instances(c, j))
                for (cc, sub) in ex.st.callee_log[-4:]: ex.st.add_defs(cc.spec_instances(sub, j))
        return z3.And(*parts) if parts else z3.BoolVal(True)
    return inv


def generate(contract, cfgname, registry, repo, D=None):
    """symbolically execute the real function under the contract; returns (State, list of Obligation, sha)"""
    cfgname_holder[0] = cfgname
    ex, mk, fn, sha, names, pre = setup(contract, cfgname, D, registry, repo)
    st = ex.st; present = mk().present
    invs = contract.invariants()
    im = {}
    for k, f in invs.items():
        g = wrap_inv(contract, mk, f, k)
        # engine calls inv(ex, idx) for assumptions and for goals; distinguish through a flag set by the engine wrapper below
        im[k] = g
        im[('ghost', k)] = (lambda ex_, v, contract=contract, mk=mk: contract.spec_instances(mk(), v))
    ex.inv = im
    c0 = mk()
    st.assume += list(contract.requires(c0)) + list(contract.cfg_assumptions(c0, cfgname)) + list(contract.extra_axioms(c0))
    for d in (range(D) if D is not None else (0,)): st.assume += list(contract.spec_instances(c0, z3.IntVal(d)))
    if D is not None: st.assume += list(contract.concrete_instances(c0, D))
    st.pre = pre; st.names = names; st.ex = ex
    ret = ex.block(fn.body)
    # statement coverage of this configuration: statements of the function that the symbolic execution never reached are not covered by
    # any obligation (a branch the executor decides away is dead code to the proof) -- aggregated over the configurations in lib/deductive
    st.cov_visited = sorted(x for x in getattr(ex, 'visited', ()) if x)
    st.cov_stmts = [(n_.lineno, ast.unparse(n_).split('\n')[0][:110]) for n_ in ast.walk(fn) if isinstance(n_, ast.stmt) and n_ is not fn
                    and not isinstance(n_, (ast.Raise, ast.Pass, ast.Import, ast.ImportFrom, ast.FunctionDef, ast.Assert)) and not (isinstance(n_, ast.Expr) and isinstance(n_.value, ast.Constant))]
    retval = ret[1] if ret is not None else None
    # lemmas about the spec functions (proved in their own small context)
    for (nm, hyps, goal, axs) in contract.spec_lemmas(mk()):
        st.oblig.append(E.Obligation('lemma: ' + nm, goal, list(hyps), len(st.reg.terms), 'lemma', axs))
    # composite kernels: spec-view chain over the callee applications (vc/dataflow.py)
    svmap = []
    if getattr(contract, 'dataflow', False):
        from . import dataflow
        from contracts import spec as _S
        svmap = dataflow.chain(st, _S.CAUSAL, mk)
    # postconditions
    cg = mk(True); cg.ret = retval
    posts = contract.ensures(cg)
    if svmap:
        from . import dataflow
        from contracts import spec as _S
        for label, f in posts:
            for (j, lo, hi) in cg.skolems: st.assume += dataflow.post_instances(st, _S.CAUSAL, svmap, f, j)
    if contract.skolem_for(cfgname):
        for (j, lo, hi) in cg.skolems:
            st.add_defs(contract.spec_instances(cg, j))
            for (cc, sub) in st.callee_log[-4:]: st.add_defs(cc.spec_instances(sub, j))
    for label, f in posts: st.add_oblig('post: ' + label, f, 'post')
    for a in contract._frame_params(cfgname):
        cur = st.heap[names[a]][0]
        if z3.eq(cur, pre[a]): st.add_oblig('frame: %s unchanged' % a, z3.BoolVal(True), 'frame')
        else:
            cf = mk(True); st.add_oblig('frame: %s unchanged' % a, cf.forall(0, ex.D, lambda j: cur[j] == pre[a][j]), 'frame')
    # return value shape
    if contract.returns == 'elementwise':
        ok = isinstance(retval, (View, E.Lazy))
        st.add_oblig('returns an array', z3.BoolVal(bool(ok)), 'post')
        if ok:
            f = st.elem(retval); cf = mk(True)
            st.add_oblig('post: result[d] = ret_elem(d)', z3.And(retval.length == ex.D, cf.forall(0, ex.D, lambda j: f(j) == contract.ret_elem(cf, j))), 'post')
    elif contract.returns is not None and contract.returns != 'any':
        want = contract.returns
        if want in contract.tuples:
            ok = isinstance(retval, tuple) and len(retval) == contract.tuples[want] and all(
                isinstance(v, View) and v.base == names['%s.%d' % (want, i)] for i, v in enumerate(retval))
        else:
            ok = isinstance(retval, View) if want != 'none' else retval is None
            if want not in ('fresh', 'none') and ok:
                if want in names and present.get(want, True): ok = retval.base == names[want]
        st.add_oblig('returns %s' % want, z3.BoolVal(bool(ok)), 'post')
    return st, sha


class Callee:
    """caller-side use of a contract: assert requires, havoc modifies, assume ensures"""
    def __init__(self, contract, registry, repo):
        self.c, self.registry, self.repo = contract, registry, repo
        self._sig = None
    def sig(self):
        if self._sig is None:
            fn, _, _ = E.load_function(self.repo, self.c.file, self.c.qual)
            a = fn.args
            names = [x.arg for x in a.args]
            if names and names[0] in ('cls', 'self'): names = names[1:]
            defaults = [None] * (len(names) - len(a.defaults)) + list(a.defaults)
            self._sig = (names, defaults)
        return self._sig
    def apply(self, ex, args, kwargs):
        con = self.c; st = ex.st
        if make_alg(con.alg).name != st.alg.name: raise Undecided('callee %s has another cell algebra' % con.qual)
        names, defaults = self.sig()
        if len(args) > len(names): raise Undecided('too many arguments for ' + con.qual)
        bound = {}
        for nm, a in zip(names, args): bound[nm] = a
        for k, v in kwargs.items():
            if k not in names or k in bound: raise Undecided('bad keyword %s for %s' % (k, con.qual))
            bound[k] = v
        for nm, d in zip(names, defaults):
            if nm not in bound:
                if d is None: raise Undecided('missing argument %s for %s' % (nm, con.qual))
                if isinstance(d, ast.Constant) and d.value is None: bound[nm] = None
                else: raise Undecided('default of %s' % nm)
        # map to contract parameters
        pnames = {}; pre = {}; actual_cfg = {}
        arrs = {}
        for a in con.arrays:
            root = a.split('.')[0]
            v = bound.get(root)
            if '.' in a and v is not None:
                if not isinstance(v, tuple): raise Undecided('tuple argument expected for ' + root)
                v = v[int(a.split('.')[1])]
            arrs[a] = v
        fresh_made = {}
        for a, v in arrs.items():
            if v is None:
                actual_cfg[a.split('.')[0]] = None; continue
            if isinstance(v, E.Lazy): v = ex.materialize(v)        # an expression argument is a temporary array
            if not isinstance(v, View): raise Undecided('argument %s of %s is not an array' % (a, con.qual))
            st.whole(v)
            if ex.entails(v.length == ex.D) is not True: raise Undecided('argument %s of %s is not a full-length array' % (a, con.qual))
            arrs[a] = v; pnames[a] = v.base; pre[a] = st.heap[v.base][0]
        # aliasing pattern of the actual arguments
        alias = {}
        given = [a for a in con.arrays if a in pnames]
        for i, a in enumerate(given):
            for b in given[:i]:
                if pnames[a] == pnames[b]: alias[a] = alias.get(b, b); break
        cfgname = None
        for nm, cfg in con.cfgs.items():
            if cfg.get('alias', {}) != alias: continue
            okc = True
            for root in set(x.split('.')[0] for x in con.arrays) | set(con.tuples):
                want_none = (root in cfg and cfg[root] is None)
                is_none = bound.get(root) is None
                if want_none != is_none: okc = False
            for s, kind in con.scalars.items():
                val = bound.get(s); want = cfg.get(s, kind)
                if want is None or want == 'none':
                    if val is not None: okc = False
                elif isinstance(want, int):
                    if not (isinstance(val, IntV) and ex.entails(val.t == want) is True): okc = False
                elif want == 'int':
                    if not isinstance(val, IntV): okc = False
                elif want == 'real':
                    if not isinstance(val, (Cell, IntV)): okc = False
                elif want == 'func':
                    if not isinstance(val, FuncV): okc = False
                elif want == 'cell':
                    if not isinstance(val, Cell): okc = False
            if okc:
                # the configuration's own assumptions (e.g. r >= 3) must be entailed at the call site
                probe = _SubCtx(ex, pre, pnames, bound, con)
                try: extra = list(con.cfg_assumptions(probe, nm))
                except Exception: extra = []
                if all(ex.entails(a) is True for a in extra): cfgname = nm; break
        if cfgname is None:
            raise Undecided('call of %s uses an aliasing/argument configuration the contract does not list: alias=%s' % (con.qual, alias))
        cfg = con.cfgs[cfgname]
        # scalars into a sub-environment for the contract clauses
        sub = _SubCtx(ex, pre, pnames, bound, con)
        for r in con.requires(sub) + con.cfg_assumptions(sub, cfgname):
            if not _is_spec_definition(r): st.add_oblig('callee %s requires' % con.qual.split('.')[-1], r, 'callee-pre')
        # havoc
        al = cfg.get('alias', {})
        modreps = set()
        for m in con.modifies:
            if m in pnames: modreps.add(pnames[m])
        ret = None
        if con.returns == 'fresh' or (con.returns in con.arrays and con.returns not in pnames) or (con.returns and con.returns.split('.')[0] in con.tuples and bound.get(con.returns.split('.')[0]) is None):
            pass
        for b in modreps:
            st.fresh += 1
            st.heap[b] = (z3.Const('%s!call%d' % (b, st.fresh), st.ARR), st.heap[b][1]); st.written.add(b)
        # arrays the callee allocates itself (out=None configurations)
        for a in con.arrays:
            if a not in pnames and a in con.modifies:
                nb = st.new_base(ex.D, name='ret_' + con.qual.split('.')[-1]); pnames[a] = nb; fresh_made[a] = nb
        sub2 = _SubCtx(ex, pre, pnames, bound, con)
        st.callee_log.append((con, sub2))                 # so that goals can instantiate the callee's spec definitions at their skolems
        st.assume += list(con.spec_instances(sub2, z3.IntVal(0)))      # order-0 definitions: needed for domain preconditions of later calls
        Dc = ival(ex.D)
        if Dc is not None:                                                 # unrolled mode: the callee's spec functions are fully unfolded
            for d_ in range(1, Dc): st.assume += list(con.spec_instances(sub2, z3.IntVal(d_)))
            st.assume += list(con.concrete_instances(sub2, Dc))
        st.assume += list(con.extra_axioms(sub2))
        sub2.ensured = [f for label, f in con.ensures(sub2)]
        st.assume += sub2.ensured
        sub2.assumed = True
        # return value
        rv = con.returns
        if rv is None or rv == 'none': return None
        if rv == 'any': return E._Poison('return value of ' + con.qual)       # branch-dependent result: usable only as a discarded value
        if rv == 'elementwise': return E.Lazy(ex.D, lambda i: con.ret_elem(sub2, i))      # a pure function of the coefficients: result[i] = ret_elem(i)
        if rv in con.tuples:
            return tuple(View(pnames['%s.%d' % (rv, i)], z3.IntVal(0), 1, ex.D) for i in range(con.tuples[rv]))
        if rv in pnames: return View(pnames[rv], z3.IntVal(0), 1, ex.D)
        raise Undecided('return value of %s' % con.qual)


def _apply_method(self, ex, obj, meth):
    """caller-side use of an elementary-function METHOD contract (x.cos()): requires checked, a new object whose data satisfy the
    contract's postcondition, argument untouched"""
    con = self.c; st = ex.st
    if getattr(con, 'obj', None) != 'self' or not hasattr(con, 'value'): raise Undecided('method .%s() has no functional contract' % meth)
    if make_alg(con.alg).name != st.alg.name: raise Undecided('method %s has another cell algebra' % con.qual)
    d = obj.attrs.get('data')
    if not isinstance(d, View): raise Undecided('receiver of .%s() has no data array' % meth)
    st.whole(d)
    if ex.entails(d.length == ex.D) is not True: raise Undecided('receiver of .%s() is not a full-length array' % meth)
    key = 'self.data'; pre = {key: st.heap[d.base][0]}; names = {key: d.base}
    sub = _SubCtx(ex, pre, names, {'self': obj}, con)
    for r in con.requires(sub): st.add_oblig('callee %s requires' % con.qual.split('.')[-1], r, 'callee-pre')
    nb = st.new_base(ex.D, name='ret_' + meth); R = st.heap[nb][0]
    st.fresh += 1; q = z3.Int('j!m%d' % st.fresh)
    f = z3.ForAll([q], z3.Implies(z3.And(0 <= q, q < ex.D), z3.Select(R, q) == con.value(sub, q)))
    sub.ensured = [f]; st.assume.append(f); st.callee_log.append((con, sub)); sub.assumed = True
    return E.ObjV(obj.cls, {'data': View(nb, z3.IntVal(0), 1, ex.D)})
Callee.apply_method = _apply_method


def _apply_functional(self, ex, args, key):
    """caller-side use of a FUNCTIONAL method contract (operators, neg, ...): the result is a new object whose coefficients are given by
    the contract's `fvalue`; `requires` become obligations; the operands are not written.  args: parameter name -> ObjV / scalar value."""
    con = self.c; st = ex.st
    if not hasattr(con, 'fvalue'): raise Undecided('%s has no functional contract' % key)
    if make_alg(con.alg).name != st.alg.name: raise Undecided('%s has another cell algebra' % key)
    pre = {}; names = {}; bound = dict(args); objs = [a for a in args.values() if isinstance(a, E.ObjV)]
    for nm, v in args.items():
        if isinstance(v, E.ObjV):
            d = v.attrs.get('data')
            if not isinstance(d, View): raise Undecided('operand of %s has no data array' % key)
            st.whole(d)
            if ex.entails(d.length == ex.D) is not True: raise Undecided('operand of %s is not a full-length array' % key)
            pre[nm + '.data'] = st.heap[d.base][0]; names[nm + '.data'] = d.base
        elif isinstance(v, E.NdV): bound[nm] = E.Cell(v.t)
        elif not isinstance(v, (E.IntV, E.Cell)): raise Undecided('operand kind %s for %s' % (type(v).__name__, key))
    sub = _SubCtx(ex, pre, names, bound, con)
    for r in con.requires(sub): st.add_oblig('callee %s requires' % con.qual.split('.')[-1], r, 'callee-pre')
    nb = st.new_base(ex.D, name='ret' + con.qual.split('.')[-1]); R = st.heap[nb][0]
    st.fresh += 1; q = z3.Int('j!f%d' % st.fresh)
    f = z3.ForAll([q], z3.Implies(z3.And(0 <= q, q < ex.D), z3.Select(R, q) == con.fvalue(sub, q)))
    sub.ensured = [f]; st.assume.append(f); st.callee_log.append((con, sub)); sub.assumed = True
    for d_ in list(con.spec_instances(sub, z3.IntVal(0))): st.assume.append(d_)
    return E.ObjV(objs[0].cls, {'data': View(nb, z3.IntVal(0), 1, ex.D)})
Callee.apply_functional = _apply_functional


def _is_spec_definition(f): return False


class _SubCtx(Ctx):
    """context for evaluating a callee's clauses at a call site"""
    def __init__(self, ex, pre, names, bound, con):
        super().__init__(ex, pre, names, goal=False)
        self.bound = bound; self.con = con; self.ret = None
    def cur(self, name): return self.st.heap[self._names[name]][0]
    def scalar(self, name):
        v = self.bound.get(name)
        return v
    def local(self, name): raise Undecided('callee clause refers to a local')


def scalar_of(c, name):
    """value of a scalar parameter, on the verification side (env) or the caller side (bound)"""
    if isinstance(c, _SubCtx): return c.bound.get(name)
    return c.st.env.get(name)


# ----------------------------------------------------------------------------------------------------------
def verify_cfg(contract, cfgname, registry, repo, D=None, timeout_ms=None):
    """verify one configuration; returns Result.  Never raises for Undecided (recorded in the result)."""
    res = Result(); t0 = time.time()
    try:
        st, sha = generate(contract, cfgname, registry, repo, D)
        res.sha = sha
    except Undecided as e:
        res.undecided = str(e); res.wall = time.time() - t0; return res
    except (AttributeError, TypeError, KeyError, IndexError, ValueError, AssertionError, z3.Z3Exception) as e:
        # the executor met a construct it does not model (e.g. numpy.dot applied to whole coefficient arrays): outside the verified subset
        import traceback
        where = traceback.extract_tb(e.__traceback__)[-1]
        res.undecided = 'construct outside the executor\'s subset (%s: %s at %s:%d)' % (type(e).__name__, str(e)[:120], where.filename.split('/')[-1], where.lineno)
        res.wall = time.time() - t0; return res
    alg = st.alg
    tmo = timeout_ms or contract.timeout_ms
    for ob in st.oblig:
        # escalating budgets: verdicts must not flip when the machine is busy; only the last attempt's failure counts
        attempts = [dict(timeout_ms=tmo, depth=contract.lemma_depth, seed=0, pair_timeout_ms=None),
                    dict(timeout_ms=tmo * 2, depth=contract.lemma_depth, seed=7, pair_timeout_ms=1500),
                    dict(timeout_ms=tmo * 2, depth=contract.lemma_depth + 1, seed=13, pair_timeout_ms=1500)]
        dt = 0.0; v = 'unknown'; why = ''; sat_seen = False
        for k, at in enumerate(attempts):
            v, dti, why = E.discharge(ob, st.reg, alg, **at); dt += dti
            if v == 'unsat' or z3.is_true(ob.goal): break
            if v == 'sat' and not E._has_quant(ob.goal) and not any(E._has_quant(x) for x in ob.assume) and not ob.nsums: break      # a genuine quantifier-free counter-model
        res.obligations.append({'name': ob.name, 'kind': ob.kind, 'verdict': v, 'seconds': round(dt, 3), 'why': why, 'backend': 'z3'})
    res.wall = time.time() - t0
    res.state = st
    res.cov = (getattr(st, 'cov_visited', None), getattr(st, 'cov_stmts', None))
    return res


