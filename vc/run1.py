import sys, time
sys.path.insert(0, '/verif')
from vc.contract import verify_cfg
from contracts import registry
def main(names, D=None):
    for nm in names:
        con = registry.ALL[nm]; import os; REPO = os.environ.get('ALGOPY_REPO', '/repo')
        for cfg in con.cfgs:
            t = time.time(); r = verify_cfg(con, cfg, registry.ALL, REPO, D=D)
            bad = [(o['name'], o['verdict'], o['seconds'], o['why']) for o in r.obligations if o['verdict'] != 'unsat']
            print('%-14s %-10s obl=%2d  %s  %.1fs %s' % (nm, cfg, len(r.obligations), 'UNDECIDED: ' + r.undecided if r.undecided else ('ok' if not bad else 'FAILED'), time.time() - t, bad if bad else ''))
if __name__ == '__main__':
    D = None
    args = sys.argv[1:]
    if args and args[0].startswith('D='): D = int(args[0][2:]); args = args[1:]
    main(args or list(registry.ALL), D)
