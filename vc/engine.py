"""tpvc / ixvc engine: symbolic execution of the REAL function ASTs of /repo -> verification conditions (z3).

The executor walks ast.FunctionDef nodes parsed from the working tree on every run; nothing here is a
re-implementation of algopy code.  Contracts (requires / ensures / loop invariants / modifies / aliasing
configurations) live in /verif/contracts/*.py and are keyed by qualified function name and loop ordinal.

Abstraction (DESIGN 3.1): a data array of shape (D,P)+shp is represented by its axis-0 coefficient map of ONE
generic batch position: z3 `Array Int Cell`.  Statements that touch batch axes in any way other than
':' / '...' / the enclosing `p` loop variable make the function leave the supported subset (Undecided).

Modes
  * symbolic D  : loops need a sidecar invariant; obligations are discharged for all D >= 1.
  * concrete D  : D is a Python int; loops with concrete bounds are unrolled, sums expanded.  Used for
                  counterexample search (quantifier free => real `sat` models) and for the CPython cross-check.
"""
import ast, itertools, os, sys, time, hashlib
import z3

I, R, B = z3.IntSort(), z3.RealSort(), z3.BoolSort()


class Undecided(Exception):
    """The function left the supported subset / the contract does not apply any more.  Never a violation."""


# ----------------------------------------------------------------------------------------------------------
# cell algebras
class RealAlg:
    name = 'real'
    sort = R
    def lit(self, v):
        if isinstance(v, bool): raise Undecided('bool literal as cell')
        if isinstance(v, int): return z3.RealVal(v)
        return z3.RealVal(repr(float(v)))
    def of_int(self, t): return z3.ToReal(t) if z3.is_int(t) else t
    def add(self, a, b): return a + b
    def sub(self, a, b): return a - b
    def mul(self, a, b): return a * b
    def div(self, a, b): return a / b
    def neg(self, a): return -a
    def nonzero(self, a): return a != 0
    zero = property(lambda s: z3.RealVal(0))
    one = property(lambda s: z3.RealVal(1))
    axioms = ()


class IntAlg(RealAlg):
    """index mode (ixvc): cells are integers"""
    name = 'int'
    sort = I
    def lit(self, v):
        if isinstance(v, int) and not isinstance(v, bool): return z3.IntVal(v)
        raise Undecided('non-int literal in index mode')
    def of_int(self, t): return t
    def div(self, a, b): raise Undecided('true division in index mode')
    zero = property(lambda s: z3.IntVal(0))
    one = property(lambda s: z3.IntVal(1))


class MatAlg:
    """cells are elements of an uninterpreted (non-commutative) ring: matrices of any size.
    Scalars (ints/reals) act through `smul`."""
    name = 'mat'
    def __init__(self):
        M = self.sort = z3.DeclareSort('Mat')
        self.f_add = z3.Function('madd', M, M, M); self.f_mul = z3.Function('mdot', M, M, M)
        self.f_neg = z3.Function('mneg', M, M); self.f_smul = z3.Function('smul', R, M, M)
        self.Zero = z3.Const('MZero', M); self.Id = z3.Const('MId', M)
        self.f_inv = z3.Function('minv', M, M); self.f_T = z3.Function('mT', M, M)
        a, b, c = z3.Consts('ma mb mc', M); r = z3.Real('mr'); s = z3.Real('ms')
        ad, mu, ng, sm = self.f_add, self.f_mul, self.f_neg, self.f_smul
        self.named = {
            'add_assoc': (3, lambda a, b, c: ad(ad(a, b), c) == ad(a, ad(b, c))), 'add_comm': (2, lambda a, b: ad(a, b) == ad(b, a)),
            'add_zero': (1, lambda a: ad(a, self.Zero) == a), 'zero_add': (1, lambda a: ad(self.Zero, a) == a), 'add_neg': (1, lambda a: ad(a, ng(a)) == self.Zero),
            'neg_add': (1, lambda a: ad(ng(a), a) == self.Zero),
            'mul_assoc': (3, lambda a, b, c: mu(mu(a, b), c) == mu(a, mu(b, c))), 'ldist': (3, lambda a, b, c: mu(a, ad(b, c)) == ad(mu(a, b), mu(a, c))),
            'rdist': (3, lambda a, b, c: mu(ad(a, b), c) == ad(mu(a, c), mu(b, c))), 'neg_mul': (2, lambda a, b: mu(ng(a), b) == ng(mu(a, b))),
            'mul_neg': (2, lambda a, b: mu(a, ng(b)) == ng(mu(a, b))), 'id_mul': (1, lambda a: mu(self.Id, a) == a), 'mul_id': (1, lambda a: mu(a, self.Id) == a),
            'neg_neg': (1, lambda a: ng(ng(a)) == a), 'neg_dist': (2, lambda a, b: ng(ad(a, b)) == ad(ng(a), ng(b))), 'mul_zero': (1, lambda a: mu(a, self.Zero) == self.Zero),
        }
        self.basic = (z3.ForAll([a], ad(a, self.Zero) == a), z3.ForAll([a], ad(self.Zero, a) == a))
        self.axioms = (
            z3.ForAll([a, b, c], ad(ad(a, b), c) == ad(a, ad(b, c))),
            z3.ForAll([a, b], ad(a, b) == ad(b, a)),
            z3.ForAll([a], ad(a, self.Zero) == a),
            z3.ForAll([a], ad(a, ng(a)) == self.Zero),
            z3.ForAll([a, b, c], mu(mu(a, b), c) == mu(a, mu(b, c))),
            z3.ForAll([a, b, c], mu(a, ad(b, c)) == ad(mu(a, b), mu(a, c))),
            z3.ForAll([a, b, c], mu(ad(a, b), c) == ad(mu(a, c), mu(b, c))),
            z3.ForAll([a, b], mu(ng(a), b) == ng(mu(a, b))),
            z3.ForAll([a, b], mu(a, ng(b)) == ng(mu(a, b))),
            z3.ForAll([a], mu(self.Id, a) == a), z3.ForAll([a], mu(a, self.Id) == a),
            z3.ForAll([a], mu(self.Zero, a) == self.Zero), z3.ForAll([a], mu(a, self.Zero) == self.Zero),
            z3.ForAll([a], ng(ng(a)) == a), ng(self.Zero) == self.Zero,
            z3.ForAll([a, b], ng(ad(a, b)) == ad(ng(a), ng(b))),
            z3.ForAll([a], sm(z3.RealVal(1), a) == a), z3.ForAll([a], sm(z3.RealVal(-1), a) == ng(a)),
            z3.ForAll([a], sm(z3.RealVal(0), a) == self.Zero),
        )
    def nonzero(self, a): return a != self.Zero        # 'some entry of the matrix cell is non-zero'
    def inst(self, name, *terms):
        """ground instance of a ring axiom (used as a proof hint instead of handing quantified AC axioms to the solver)"""
        n, f = self.named[name]; assert len(terms) == n, name
        return f(*terms)
    def lit(self, v):
        if v == 0: return self.Zero
        raise Undecided('scalar literal %r as matrix cell' % (v,))
    def of_int(self, t): raise Undecided('int as matrix cell')
    def add(self, a, b): return self.f_add(a, b)
    def sub(self, a, b): return self.f_add(a, self.f_neg(b))
    def mul(self, a, b): raise Undecided('elementwise * on matrix cells')
    def dot(self, a, b): return self.f_mul(a, b)
    def outer(self, a, b): return z3.Function('mouter', self.sort, self.sort, self.sort)(a, b)
    def div(self, a, b): raise Undecided('division of matrix cells')
    def neg(self, a): return self.f_neg(a)
    zero = property(lambda s: s.Zero)


# ----------------------------------------------------------------------------------------------------------
# values
class IntV:
    def __init__(s, t): s.t = t if z3.is_expr(t) else z3.IntVal(t)
class Cell:
    def __init__(s, t): s.t = t
class CellRef(Cell):
    """x[d], x[d,p,...]: in NumPy a view of the array (all data arrays have ndim >= 2): reading gives the CURRENT contents and an
    in-place update through the name writes into the array.  `sure` is False for forms that are a scalar copy when the array is
    exactly 2-D (x[d,p] without Ellipsis/slice)."""
    def __init__(s, st, base, idx, sure=True): s.st, s.base, s.idx, s.sure = st, base, idx, sure
    @property
    def t(s): return z3.Select(s.st.heap[s.base][0], s.idx)
class BoolV:
    def __init__(s, t): s.t = t
class View:          # view of a heap base along axis 0
    def __init__(s, base, start, step, length): s.base, s.start, s.step, s.length = base, start, step, length
class Lazy:          # element-wise expression of symbolic length along axis 0
    def __init__(s, length, f): s.length, s.f = length, f
class FuncV:         # opaque python callable (uninterpreted)
    def __init__(s, name, bound=()): s.name, s.bound = name, tuple(bound)
class ModV:          # module placeholder
    def __init__(s, name): s.name = name
class ObjV:          # object with attributes (UTPM instance): attrs name -> value
    def __init__(s, cls, attrs): s.cls, s.attrs = cls, dict(attrs)
class TypeV:
    def __init__(s, name): s.name = name
class NdV:           # plain ndarray constant: one cell per batch position, no coefficient axis
    def __init__(s, t): s.t = t


def is_scalar(v): return isinstance(v, (IntV, Cell))
def ival(t):
    t = z3.simplify(t) if z3.is_expr(t) else z3.IntVal(t)
    return t.as_long() if z3.is_int_value(t) else None


# ----------------------------------------------------------------------------------------------------------
class SumReg:
    """Registry of finite sums  S = sum_{i=lo}^{hi} f(i).  Each distinct record is a fresh constant; the facts
    relating records are added as explicit lemma instances at discharge time (DESIGN 3.4).  The lemma schemas
    are proved once in Lean (lean/SumLemmas.lean)."""
    def __init__(self, alg): self.alg = alg; self.terms = []; self.n = 0
    def Sum(self, lo, hi, f, tag=''):
        lo = z3.simplify(lo) if z3.is_expr(lo) else z3.IntVal(lo)
        hi = z3.simplify(hi) if z3.is_expr(hi) else z3.IntVal(hi)
        a, b = ival(lo), ival(hi)
        if a is not None and b is not None:                       # concrete range: expand
            acc = self.alg.zero
            for i in range(a, b + 1): acc = self.alg.add(acc, f(z3.IntVal(i)))
            return acc
        # linearity: a numeral coefficient of the summand is pulled out of the sum (sum c*f = c*sum f)
        if self.alg.name == 'real':
            coef, _ = _strip_coeff(f(z3.Int('i!probe')))
            if coef is not None:
                g = (lambda i, f=f, coef=coef: _strip_expect(f(i), coef))
                c = z3.Const('S!%d' % self.n, self.alg.sort); self.n += 1
                self.terms.append((c, lo, hi, g)); return coef * c
        c = z3.Const('S!%d' % self.n, self.alg.sort); self.n += 1
        self.terms.append((c, lo, hi, f)); return c
    def lemmas(self, upto, depth=1, pairs=True, only=None):
        alg = self.alg; out = []; base = list(self.terms[:upto])
        if only is not None: base = [r for r in base if r[0].decl().name() in only]
        allrec = list(base); n0 = self.n; layer = base
        for _ in range(depth):
            new = []
            for (c, lo, hi, f) in layer:
                out.append(z3.Implies(hi < lo, c == alg.zero))
                cl = z3.Const('S!%d' % self.n, alg.sort); self.n += 1; new.append((cl, z3.simplify(lo), z3.simplify(hi - 1), f))
                out.append(z3.Implies(lo <= hi, c == alg.add(cl, f(hi))))
                cf = z3.Const('S!%d' % self.n, alg.sort); self.n += 1; new.append((cf, z3.simplify(lo + 1), z3.simplify(hi), f))
                out.append(z3.Implies(lo <= hi, c == alg.add(f(lo), cf)))
            allrec += new; layer = new
        for (c, lo, hi, f) in layer: out.append(z3.Implies(hi < lo, c == alg.zero))
        if pairs:
            k = 0
            for (a, b) in itertools.combinations(allrec, 2):
                (ca, loa, hia, fa), (cb, lob, hib, fb) = a, b
                w = z3.Int('w!%d' % k); v = z3.Int('v!%d' % k); k += 1
                out.append(z3.Implies(z3.And(hib - lob == hia - loa, z3.Implies(z3.And(loa <= w, w <= hia), fa(w) == fb(w + lob - loa))), ca == cb))
                out.append(z3.Implies(z3.And(hib - lob == hia - loa, z3.Implies(z3.And(loa <= v, v <= hia), fa(v) == fb(hib - (v - loa)))), ca == cb))
        self.n = n0
        return out


def _strip_coeff(t):
    t = z3.simplify(t)
    if z3.is_mul(t) and z3.is_rational_value(t.arg(0)) and t.num_args() >= 2:
        rest = t.arg(1)
        for k in range(2, t.num_args()): rest = rest * t.arg(k)
        return t.arg(0), rest
    return None, t
def _strip_expect(t, coef):
    c, rest = _strip_coeff(t)
    if c is not None and z3.eq(c, coef): return rest
    return t / coef


class Obligation:
    def __init__(s, name, goal, assume, nsums, kind='vc', axioms=(), def_ids=None):
        s.name, s.goal, s.assume, s.nsums, s.kind, s.axioms = name, goal, assume, nsums, kind, tuple(axioms)
        s.def_ids = def_ids if def_ids is not None else set()      # ids of assumptions that are instances of spec definitions (valid at every index)


class State:
    def __init__(s, alg):
        s.alg = alg; s.ARR = z3.ArraySort(I, alg.sort)
        s.heap = {}; s.env = {}; s.assume = []; s.oblig = []; s.reg = SumReg(alg); s.fresh = 0; s.written = set(); s.def_ids = set()
        s.lemma_depth = 1; s.initial = {}; s.axioms = (); s.callee_log = []
    def add_oblig(s, name, goal, kind='vc'):
        if z3.is_true(z3.simplify(goal)) if z3.is_expr(goal) else goal is True:
            s.oblig.append(Obligation(name, z3.BoolVal(True), [], 0, kind)); return
        s.oblig.append(Obligation(name, goal, list(s.assume), len(s.reg.terms), kind, s.axioms, s.def_ids))
    def add_defs(s, formulas):
        """instances of the spec functions' defining equations at a goal skolem: they hold at every index, so a conjunct proved for the
        skolem may be generalised over it (see discharge)"""
        if not hasattr(s, 'def_ids'): s.def_ids = set()
        for f in formulas: s.assume.append(f); s.def_ids.add(f.get_id())
    def new_base(s, length, contents=None, name='h'):
        s.fresh += 1; bid = '%s#%d' % (name, s.fresh)
        s.heap[bid] = (contents if contents is not None else z3.Const(bid + '!0', s.ARR), length)
        s.initial[bid] = s.heap[bid][0]; return bid
    def arr(s, v): return s.heap[v.base][0]
    def elem(s, v):
        if isinstance(v, View):
            arr = s.heap[v.base][0]
            return lambda i, arr=arr, v=v: z3.Select(arr, v.start + v.step * i)
        if isinstance(v, Lazy): return v.f
        raise Undecided('not an array value: %r' % (v,))
    def whole(s, v):
        """array term of a view that covers its base exactly (start 0, step 1) -- else Undecided"""
        if not isinstance(v, View): raise Undecided('expected array view')
        if ival(z3.simplify(v.start)) != 0 or v.step != 1: raise Undecided('callee argument is a partial view')
        return s.heap[v.base][0]


NP_UNARY = ('exp', 'log', 'sin', 'cos', 'sqrt', 'tan', 'sinh', 'cosh', 'tanh', 'arcsin', 'arccos', 'arctan',
            'log1p', 'expm1')


class Exec:
    def __init__(self, st, D, contracts=None, callees=None, P=None):
        self.st, self.D = st, (D if z3.is_expr(D) else z3.IntVal(D))
        self.P = P if P is not None else z3.Int('P')
        self.inv = contracts or {}          # loop ordinal -> invariant closure
        self.callees = callees or {}        # callee simple name -> CalleeContract
        self.loopno = -1
        self.concrete = ival(self.D) is not None
        self.branch_conds = []

    # ------------------------------------------------------------------ entailment helpers
    def _solver(self):
        sv = z3.Solver(); sv.set('timeout', 2000)
        sv.add([x for x in self.st.assume if not _has_quant(x)]); return sv
    def entails(self, cond):
        c = z3.simplify(cond)
        if z3.is_true(c): return True
        if z3.is_false(c): return False
        sv = self._solver(); sv.add(z3.Not(c))
        return True if sv.check() == z3.unsat else None
    def decide(self, cond):
        c = z3.simplify(cond)
        if z3.is_true(c): return True
        if z3.is_false(c): return False
        sv = self._solver()
        sv.push(); sv.add(z3.Not(c)); r = sv.check(); sv.pop()
        if r == z3.unsat: return True
        sv.push(); sv.add(c); r = sv.check(); sv.pop()
        if r == z3.unsat: return False
        return None
    def ite(self, cond, a, b):
        a = a if z3.is_expr(a) else z3.IntVal(a); b = b if z3.is_expr(b) else z3.IntVal(b)
        if z3.eq(z3.simplify(a), z3.simplify(b)): return a
        sv = self._solver()
        sv.push(); sv.add(z3.Not(z3.Or(cond, a == b))); r1 = sv.check(); sv.pop()
        if r1 == z3.unsat: return a
        sv.push(); sv.add(z3.Not(z3.Or(z3.Not(cond), a == b))); r2 = sv.check(); sv.pop()
        if r2 == z3.unsat: return b
        return z3.If(cond, a, b)

    # ------------------------------------------------------------------ expressions
    def ev(self, n):
        st = self.st; alg = st.alg
        if isinstance(n, ast.Constant):
            v = n.value
            if isinstance(v, bool) or v is None or v is Ellipsis or isinstance(v, str): return v
            if isinstance(v, int): return IntV(z3.IntVal(v))
            if isinstance(v, float): return Cell(alg.lit(v))
            raise Undecided('constant %r' % (v,))
        if isinstance(n, ast.Name):
            if n.id not in st.env:
                if n.id in ('int', 'float', 'complex', 'object'): return TypeV(n.id)
                if n.id in self.callees: return FuncV(n.id)          # module-level function under contract
                raise Undecided('unknown name ' + n.id)
            return st.env[n.id]
        if isinstance(n, ast.UnaryOp):
            v = self.ev(n.operand)
            if isinstance(n.op, ast.USub):
                if isinstance(v, IntV): return IntV(-v.t)
                if isinstance(v, ObjV):                       # -x -> x.__neg__()
                    cal = self.callees.get('UTPM.__neg__')
                    if cal is None or not hasattr(cal, 'apply_functional'): raise Undecided('no contract for UTPM.__neg__')
                    return cal.apply_functional(self, {'self': v}, 'UTPM.__neg__')
                return self.scale_neg(v)
            if isinstance(n.op, ast.Not):
                b = self.truth(v)
                if isinstance(b, bool): return not b
                return BoolV(z3.Not(b.t))
            raise Undecided('unary op')
        if isinstance(n, ast.BinOp): return self.binop(n.op, self.ev(n.left), self.ev(n.right))
        if isinstance(n, ast.Subscript): return self.subscript(self.ev(n.value), n.slice)
        if isinstance(n, ast.Tuple): return tuple(self.ev(e) for e in n.elts)
        if isinstance(n, ast.List): return [self.ev(e) for e in n.elts]
        if isinstance(n, ast.Attribute): return self.attribute(n)
        if isinstance(n, ast.Call): return self.call(n)
        if isinstance(n, ast.BoolOp):
            vals = []
            for e in n.values:
                b = self.truth(self.ev(e))
                if isinstance(b, bool):
                    if isinstance(n.op, ast.And) and not b: return False
                    if isinstance(n.op, ast.Or) and b: return True
                    continue
                vals.append(b.t)
            if not vals: return isinstance(n.op, ast.And)
            return BoolV(z3.And(*vals) if isinstance(n.op, ast.And) else z3.Or(*vals))
        if isinstance(n, ast.Compare): return self.compare(n)
        if isinstance(n, ast.IfExp):
            c = self.truth(self.ev(n.test))
            if isinstance(c, bool): return self.ev(n.body if c else n.orelse)
            a_, b_ = self.ev(n.body), self.ev(n.orelse)
            if isinstance(a_, IntV) and isinstance(b_, IntV): return IntV(z3.If(c.t, a_.t, b_.t))
            if is_scalar(a_) and is_scalar(b_):
                ta, tb = (st.alg.of_int(a_.t) if isinstance(a_, IntV) else a_.t), (st.alg.of_int(b_.t) if isinstance(b_, IntV) else b_.t)
                return Cell(z3.If(c.t, ta, tb))
            raise Undecided('symbolic conditional expression')
        raise Undecided('expr ' + type(n).__name__)

    def truth(self, v):
        if isinstance(v, bool): return v
        if v is None: return False
        if isinstance(v, (ModV, FuncV, View, ObjV, tuple)): return True
        if isinstance(v, BoolV):
            d = self.decide(v.t)
            return d if d is not None else v
        if isinstance(v, IntV):
            d = self.decide(v.t != 0)
            return d if d is not None else BoolV(v.t != 0)
        raise Undecided('truth value of %r' % (v,))

    def compare(self, n):
        if len(n.ops) != 1: raise Undecided('chained comparison')
        op = n.ops[0]
        ltxt = ast.unparse(n.left)
        if ltxt.startswith('numpy.shape(') or ltxt.endswith('.shape'):
            # shape (in)equality guards: equal shapes are a contract precondition checked at the call sites
            if isinstance(op, ast.NotEq): return False
            if isinstance(op, ast.Eq): return True
        l, r = self.ev(n.left), self.ev(n.comparators[0])
        if isinstance(op, ast.Is): return (l is r) if not (l is None or r is None) else (l is None and r is None)
        if isinstance(op, ast.IsNot): return not ((l is r) if not (l is None or r is None) else (l is None and r is None))
        if isinstance(l, TypeV) or isinstance(r, TypeV):
            if isinstance(l, TypeV) and isinstance(r, TypeV) and isinstance(op, (ast.Eq, ast.NotEq)):
                names = {l.name, r.name}
                if 'dtype' in names and len(names) == 2:
                    # the dtype of a numeric array against a concrete type: in the cell abstraction every array holds real cells, so it IS
                    # float and is NOT object; any other question (complex, int, ...) is outside the abstraction -- never "decided" by name
                    other = (names - {'dtype'}).pop()
                    if other == 'float': return isinstance(op, ast.Eq)
                    if other == 'object': return not isinstance(op, ast.Eq)
                    raise Undecided('comparison of an array dtype with %s' % other)
                return (l.name == r.name) == isinstance(op, ast.Eq)
            raise Undecided('type comparison')
        if isinstance(l, (IntV, Cell)) and isinstance(r, (IntV, Cell)):
            a, b = l.t, r.t
            if isinstance(l, Cell) or isinstance(r, Cell):
                a, b = self.st.alg.of_int(a), self.st.alg.of_int(b)
            t = {ast.Eq: lambda: a == b, ast.NotEq: lambda: a != b, ast.Lt: lambda: a < b, ast.LtE: lambda: a <= b,
                 ast.Gt: lambda: a > b, ast.GtE: lambda: a >= b}[type(op)]()
            d = self.decide(t)
            return d if d is not None else BoolV(t)
        raise Undecided('comparison of %s and %s' % (type(l).__name__, type(r).__name__))

    def attribute(self, n):
        st = self.st
        if n.attr == 'shape': return ('shape', self.ev(n.value))
        if n.attr == 'dtype': self.ev(n.value); return TypeV('dtype')
        if n.attr == '__class__':
            b = self.ev(n.value)
            if isinstance(b, ObjV): return ('ctor', b.cls)
            raise Undecided('__class__ of non-object')
        if n.attr == 'T': raise Undecided('.T')
        base = self.ev(n.value)
        if isinstance(base, TypeV) and base.name == 'UTPM': return ('clsmethod', n.attr)
        if isinstance(base, tuple) and base and base[0] == 'ctor': return ('clsmethod', n.attr)          # self.__class__.neg
        if isinstance(base, NdV) and n.attr in ('reshape', 'copy', 'flatten'): return ('arrmethod', base, n.attr)
        if isinstance(base, ModV): return self.modattr(base, n.attr)
        if isinstance(base, ObjV):
            if n.attr in base.attrs: return base.attrs[n.attr]
            return ('method', base, n.attr)
        if base is None and isinstance(n.value, ast.Name) and n.value.id == 'cls': return ('clsmethod', n.attr)
        if isinstance(base, (View, Lazy)) and n.attr in ('copy', 'fill', 'dtype'): return ('arrmethod', base, n.attr)
        raise Undecided('attribute .%s of %s' % (n.attr, type(base).__name__))

    def modattr(self, m, attr):
        full = m.name + '.' + attr
        if full in ('numpy.linalg', 'scipy.special', 'scipy.linalg', 'math.pi'):
            if full == 'math.pi': return Cell(z3.Real('math_pi'))
            return ModV(full)
        return FuncV(full)

    def scale_neg(self, v):
        alg = self.st.alg
        if isinstance(v, Cell): return Cell(alg.neg(v.t))
        f = self.st.elem(v); return Lazy(v.length, lambda i: alg.neg(f(i)))

    def cellop(self, op, a, b):
        alg = self.st.alg
        if alg.name != 'int':
            a = alg.of_int(a) if z3.is_int(a) else a; b = alg.of_int(b) if z3.is_int(b) else b
        if isinstance(op, ast.Add): return alg.add(a, b)
        if isinstance(op, ast.Sub): return alg.sub(a, b)
        if isinstance(op, ast.Mult):
            if alg.name == 'mat':
                if z3.is_real(a): return alg.f_smul(a, b)
                if z3.is_real(b): return alg.f_smul(b, a)
            return alg.mul(a, b)
        if isinstance(op, ast.Div): return alg.div(a, b)
        if isinstance(op, ast.Pow): return z3.Function('pw', R, R, R)(a, b)
        raise Undecided('cell operator ' + type(op).__name__)

    OPNAMES = {ast.Add: 'add', ast.Sub: 'sub', ast.Mult: 'mul', ast.Div: 'truediv'}
    def obj_binop(self, op, l, r):
        """Python's operator dispatch on Taylor-polynomial objects: x op y -> x.__op__(y); c op x -> x.__rop__(c).  The operator methods enter
        through their CONTRACTS (a new object whose coefficients satisfy the postcondition; operands untouched)."""
        nm = self.OPNAMES.get(type(op))
        if nm is None: raise Undecided('operator %s on polynomial objects' % type(op).__name__)
        if isinstance(l, ObjV) and isinstance(r, ObjV): key, args = 'UTPM.__%s__[UTPM]' % nm, {'self': l, 'rhs': r}
        elif isinstance(l, ObjV): key, args = 'UTPM.__%s__[const]' % nm, {'self': l, 'rhs': r}
        else: key, args = 'UTPM.__r%s__[const]' % nm, {'self': r, 'rhs': l}
        cal = self.callees.get(key)
        if cal is None or not hasattr(cal, 'apply_functional'): raise Undecided('no contract for %s' % key)
        return cal.apply_functional(self, args, key)
    def binop(self, op, l, r):
        st = self.st
        if isinstance(l, ObjV) or isinstance(r, ObjV): return self.obj_binop(op, l, r)
        if isinstance(l, tuple) and isinstance(r, tuple) and isinstance(op, ast.Add):
            if (l and l[0] == 'shape') or (r and r[0] == 'shape'): return ('shape', (r[1] if r and r[0] == 'shape' else l[1]))
            return l + r
        if isinstance(l, IntV) and isinstance(r, IntV):
            if isinstance(op, ast.Div):
                if st.alg.name == 'int': raise Undecided('int / int in index mode')
                return Cell(z3.ToReal(l.t) / z3.ToReal(r.t))
            if isinstance(op, ast.FloorDiv): return IntV(self.floordiv(l.t, r.t))
            if isinstance(op, ast.Mod): return IntV(self.mod(l.t, r.t))
            if isinstance(op, ast.Pow): raise Undecided('int ** int')
            return IntV({ast.Add: lambda: l.t + r.t, ast.Sub: lambda: l.t - r.t, ast.Mult: lambda: l.t * r.t}[type(op)]())
        if isinstance(l, NdV): l = Cell(l.t)
        if isinstance(r, NdV): r = Cell(r.t)
        if is_scalar(l) and is_scalar(r): return Cell(self.cellop(op, l.t, r.t))
        if isinstance(op, ast.Pow) and isinstance(l, IntV) and ival(l.t) == -1 and isinstance(r, BoolV):
            return Cell(z3.If(r.t, st.alg.of_int(z3.IntVal(-1)), st.alg.of_int(z3.IntVal(1))))        # (-1)**mask: the sign factor -1 / +1
        if isinstance(l, BoolV) or isinstance(r, BoolV): raise Undecided('arithmetic on bool')
        if is_scalar(l): f = st.elem(r); return Lazy(r.length, lambda i: self.cellop(op, l.t, f(i)))
        if is_scalar(r): f = st.elem(l); return Lazy(l.length, lambda i: self.cellop(op, f(i), r.t))
        fl, fr = st.elem(l), st.elem(r)
        st.add_oblig('equal lengths in elementwise op', l.length == r.length, 'safety')
        return Lazy(l.length, lambda i: self.cellop(op, fl(i), fr(i)))

    def floordiv(self, a, b):
        if self.entails(b > 0) is not True: raise Undecided('floor division by non-positive')
        return a / b          # z3 int division: floor for positive divisor
    def mod(self, a, b):
        if self.entails(b > 0) is not True: raise Undecided('mod by non-positive')
        return a % b

    # ------------------------------------------------------------------ subscripts
    def _trailing_ok(self, e):
        if isinstance(e, ast.Slice) and e.lower is None and e.upper is None and e.step is None: return True
        if isinstance(e, ast.Constant) and e.value is Ellipsis: return True
        if isinstance(e, ast.Name) and self.st.env.get(e.id) is not None and getattr(self.st.env.get(e.id), 'is_p', False): return True
        return False

    def subscript(self, v, sl):
        st = self.st
        if isinstance(v, tuple) and v and v[0] == 'range':
            if isinstance(sl, ast.Slice) and sl.lower is None and sl.upper is None and sl.step is not None and ast.unparse(sl.step) == '-1':
                return ('rrange', v[1], v[2])
            raise Undecided('range subscript')
        if isinstance(v, tuple) and v and v[0] == 'shape':
            a = v[1]
            if isinstance(a, tuple): raise Undecided('shape of tuple')
            ln = a.length if isinstance(a, (View, Lazy)) else None
            if ln is None: raise Undecided('shape of non-array')
            if isinstance(sl, ast.Slice) and sl.lower is None and isinstance(sl.upper, ast.Constant) and sl.upper.value == 2 and sl.step is None:
                return (IntV(ln), self.Pval())
            if isinstance(sl, ast.Constant) and sl.value == 0: return IntV(ln)
            if isinstance(sl, ast.Constant) and sl.value == 1: return self.Pval()
            raise Undecided('shape subscript')
        if isinstance(v, (tuple, list)):
            idx = self.ev(sl)
            k = ival(idx.t) if isinstance(idx, IntV) else None
            if k is None: raise Undecided('symbolic tuple index')
            return v[k]
        if isinstance(v, Cell):
            elts = sl.elts if isinstance(sl, ast.Tuple) else [sl]
            if all(self._trailing_ok(e) for e in elts): return v        # whole-cell view of a matrix temporary
            raise Undecided('element access into a matrix cell')
        self._sub_sure = True
        if isinstance(sl, ast.Tuple):
            for e in sl.elts[1:]:
                if not self._trailing_ok(e): raise Undecided('DP: non-trivial batch subscript ' + ast.unparse(sl))
            self._sub_sure = any(not isinstance(e, ast.Name) for e in sl.elts[1:])
            sl = sl.elts[0]
        if isinstance(sl, ast.Constant) and sl.value is Ellipsis: return v
        if isinstance(sl, ast.Slice) and sl.lower is None and sl.upper is None and sl.step is None: return v
        if isinstance(v, Lazy):
            if not isinstance(sl, ast.Slice):
                idx = self.ev(sl)
                if isinstance(idx, IntV):
                    st.add_oblig('index in range: ' + ast.unparse(sl), z3.And(0 <= idx.t, idx.t < v.length), 'safety'); return Cell(v.f(idx.t))
            raise Undecided('subscript of element-wise expression')
        if not isinstance(v, View): raise Undecided('subscript of non-array %s' % type(v).__name__)
        if isinstance(sl, ast.Slice):
            step = 1
            if sl.step is not None:
                stp = self.ev(sl.step)
                if not (isinstance(stp, IntV) and ival(stp.t) is not None): raise Undecided('symbolic slice step')
                step = ival(stp.t)
            L = v.length
            def bound(e):
                b = self.ev(e)
                if not isinstance(b, IntV): raise Undecided('non-int slice bound')
                return b.t
            if step == 1:
                lo = bound(sl.lower) if sl.lower is not None else z3.IntVal(0)
                hi = bound(sl.upper) if sl.upper is not None else L
                def norm(b):
                    # Python: a negative bound counts from the end and is clipped at 0; the sign must be decided by the path condition
                    if self.entails(b >= 0) is True: return b
                    if self.entails(b < 0) is True: return self.ite(b + L > 0, b + L, z3.IntVal(0))
                    raise Undecided('slice bound of unknown sign in ' + ast.unparse(sl))
                lo, hi = norm(lo), norm(hi)
                lo2 = self.ite(lo < L, lo, L); hi2 = self.ite(hi < L, hi, L)
                ln = z3.simplify(self.ite(hi2 - lo2 > 0, hi2 - lo2, z3.IntVal(0)))
                return View(v.base, z3.simplify(v.start + v.step * lo2), v.step, ln)
            if step == -1:
                if sl.lower is None: hi = L - 1
                else:
                    hi = bound(sl.lower)
                    if self.entails(hi >= 0) is not True: raise Undecided('possibly negative reverse-slice start')
                    hi = self.ite(hi < L, hi, L - 1)
                if sl.upper is None: ln = hi + 1
                else:
                    lo = bound(sl.upper)
                    if self.entails(lo >= 0) is not True: raise Undecided('possibly negative reverse-slice stop')
                    ln = self.ite(hi - lo > 0, hi - lo, z3.IntVal(0))
                return View(v.base, z3.simplify(v.start + v.step * hi), -v.step, z3.simplify(ln))
            raise Undecided('slice step %d' % step)
        idx = self.ev(sl)
        if not isinstance(idx, IntV): raise Undecided('non-int index')
        it = idx.t
        neg = self.decide(it < 0)
        if neg is True: it = it + v.length
        elif neg is None: raise Undecided('index of unknown sign')
        st.add_oblig('index in range: ' + ast.unparse(sl), z3.And(0 <= it, it < v.length), 'safety')
        if getattr(self, 'row_views', True) and st.alg.name != 'int':
            return CellRef(st, v.base, v.start + v.step * it, sure=getattr(self, '_sub_sure', True))
        return Cell(z3.Select(st.heap[v.base][0], v.start + v.step * it))

    def Pval(self):
        v = IntV(self.P); return v

    # ------------------------------------------------------------------ calls
    def call(self, n):
        st = self.st; alg = st.alg
        fn = ast.unparse(n.func)
        kw = {k.arg: k.value for k in n.keywords}
        if fn == 'range':
            a = [self.ev(x) for x in n.args]
            if len(a) == 1: a = [IntV(0)] + a
            if len(a) == 3:
                s = ival(a[2].t)
                if s == -1: return ('drange', a[0], a[1])       # range(hi, lo, -1): hi, hi-1, ..., lo+1
                if s != 1: raise Undecided('range step')
                a = a[:2]
            return ('range',) + tuple(a)
        if fn == 'reversed' and len(n.args) == 1:
            r_ = self.ev(n.args[0])
            if isinstance(r_, tuple) and r_ and r_[0] == 'range': return ('rrange', r_[1], r_[2])
            raise Undecided('reversed() of a non-range')
        if (fn in ('numpy.any', 'numpy.all') and len(n.args) == 1 and not kw) or (isinstance(n.func, ast.Attribute) and n.func.attr in ('any', 'all') and not n.args and not kw):
            # a predicate over ALL batch cells (and, for arrays, all orders): the generic cell only bounds it from one side --
            #   any(v): if this cell's entry is non-zero the result is True ;  all(v): if the result is True this cell's entry is non-zero
            isfn = fn in ('numpy.any', 'numpy.all'); which = fn.split('.')[-1] if isfn else n.func.attr
            v = self.ev(n.args[0] if isfn else n.func.value)
            st.fresh += 1; B = z3.Bool('whole!%s%d' % (which, st.fresh))
            if isinstance(v, BoolV): nz = lambda: [v.t]
            elif is_scalar(v): nz = lambda: [(v.t != 0) if isinstance(v, IntV) else st.alg.nonzero(v.t)]
            elif isinstance(v, (View, Lazy)):
                f = st.elem(v); st.fresh += 1; q = z3.Int('j!wh%d' % st.fresh)
                def nz():
                    body = st.alg.nonzero(f(q))
                    return [z3.ForAll([q], z3.Implies(z3.And(0 <= q, q < v.length), z3.Implies(body, B)))] if which == 'any' else \
                           [z3.ForAll([q], z3.Implies(z3.And(0 <= q, q < v.length), z3.Implies(B, body)))]
                st.assume += nz(); return BoolV(B)
            else: raise Undecided('%s() of %s' % (which, type(v).__name__))
            st.assume.append(z3.Implies(nz()[0], B) if which == 'any' else z3.Implies(B, nz()[0]))
            return BoolV(B)
        if fn in ('max', 'min') and len(n.args) == 2 and not kw:
            a_, b_ = self.ev(n.args[0]), self.ev(n.args[1])
            if isinstance(a_, IntV) and isinstance(b_, IntV):
                c_ = (a_.t >= b_.t) if fn == 'max' else (a_.t <= b_.t)
                return IntV(z3.simplify(z3.If(c_, a_.t, b_.t)))
            raise Undecided('%s() of non-integers' % fn)
        if fn == 'abs' and len(n.args) == 1:
            a_ = self.ev(n.args[0])
            if isinstance(a_, IntV): return IntV(z3.simplify(z3.If(a_.t >= 0, a_.t, -a_.t)))
            if isinstance(a_, ObjV):
                cal = self.callees.get('UTPM.__abs__')
                if cal is not None and hasattr(cal, 'apply_functional'): return cal.apply_functional(self, {'self': a_}, 'UTPM.__abs__')
            raise Undecided('abs() of %s' % type(a_).__name__)
        if fn == 'numpy.where' and len(n.args) == 3 and not kw:
            m_, a_, b_ = self.ev(n.args[0]), self.ev(n.args[1]), self.ev(n.args[2])
            if isinstance(m_, BoolV) and is_scalar(a_) and is_scalar(b_):
                if isinstance(a_, IntV) and isinstance(b_, IntV): return IntV(z3.If(m_.t, a_.t, b_.t))
                ta = a_.t if isinstance(a_, Cell) else alg.of_int(a_.t); tb = b_.t if isinstance(b_, Cell) else alg.of_int(b_.t)
                return Cell(z3.If(m_.t, ta, tb))
            raise Undecided('numpy.where of these operands')
        if fn == 'tuple' and len(n.args) == 1:
            v = self.ev(n.args[0])
            if isinstance(v, tuple): return v
            raise Undecided('tuple() of %s' % type(v).__name__)
        if fn in ('float', 'int') and len(n.args) == 1:
            v = self.ev(n.args[0])
            if fn == 'float': return Cell(alg.of_int(v.t)) if isinstance(v, IntV) else v
            if isinstance(v, IntV): return v
            raise Undecided('int() of non-int')
        if fn == 'type' and len(n.args) == 1:
            v = self.ev(n.args[0])
            if isinstance(v, IntV): return TypeV('int')
            if isinstance(v, Cell): return TypeV('float')
            raise Undecided('type() of %s' % type(v).__name__)
        if fn == 'len' and len(n.args) == 1:
            v = self.ev(n.args[0])
            if isinstance(v, tuple) and v and v[0] == 'shape':
                st.fresh += 1; r_ = z3.Int('rank!%d' % st.fresh); st.assume.append(r_ >= 2); return IntV(r_)      # number of axes: unknown (>= 2)
            if isinstance(v, (tuple, list)): return IntV(len(v))
            if isinstance(v, (View, Lazy)): return IntV(v.length)
            raise Undecided('len')
        if fn == 'isinstance' and len(n.args) == 2:
            v = self.ev(n.args[0]); tn = ast.unparse(n.args[1])
            if isinstance(v, ObjV): return tn.split('.')[-1] in (v.cls, 'cls') or tn in ('cls', 'self.__class__')
            if isinstance(v, NdV): return tn in ('numpy.ndarray', 'ndarray')
            if isinstance(v, (IntV, Cell, bool)) or v is None: return False if tn.split('.')[-1] in ('UTPM', 'cls', 'ndarray', 'Function', 'integer') or tn in ('self.__class__', 'numpy.ndarray') else _undecided('isinstance of scalar against ' + tn)      # numpy.integer: the scalar parameters of a configuration are Python ints / reals (numpy scalars: bounded operator matrix)
            raise Undecided('isinstance')
        if fn == 'numpy.isscalar' and len(n.args) == 1:
            v = self.ev(n.args[0]); return isinstance(v, (IntV, Cell))
        if fn == 'numpy.asarray' and len(n.args) == 1: return self.ev(n.args[0])
        if fn in ('numpy.zeros', 'numpy.empty') and n.args and alg.name != 'mat':
            shp = self.ev(n.args[0])
            if isinstance(shp, tuple) and shp and shp[0] == 'shape' and isinstance(shp[1], (View, Lazy)):
                # numpy.empty: arbitrary contents (a fresh array constant)
                bid = st.new_base(shp[1].length, z3.K(I, alg.zero) if fn == 'numpy.zeros' else None, name=fn.split('.')[-1]); return View(bid, z3.IntVal(0), 1, shp[1].length)
            raise Undecided('%s of a non-array shape' % fn)
        if fn == 'math.factorial':
            v = self.ev(n.args[0]); return IntV(FACT(v.t))
        if fn == 'math.sqrt':
            v = self.ev(n.args[0]); return Cell(z3.Function('m_sqrt', R, R)(alg.of_int(v.t)))
        if fn in ('numpy.empty_like', 'numpy.zeros_like'):
            src = self.ev(n.args[0])
            if isinstance(src, Cell):
                return Cell(alg.zero) if fn == 'numpy.zeros_like' else Cell(z3.FreshConst(alg.sort, 'hv'))
            ln = src.length
            bid = st.new_base(ln, z3.K(I, alg.zero) if fn == 'numpy.zeros_like' else None, name='tmp')
            return View(bid, z3.IntVal(0), 1, ln)
        if fn in ('numpy.copy',) or (fn.endswith('.copy') and isinstance(n.func, ast.Attribute) and not n.args):
            src = self.ev(n.args[0] if fn == 'numpy.copy' else n.func.value)
            if isinstance(src, Cell): return src
            return self.materialize(src)
        if fn.endswith('.fill') and isinstance(n.func, ast.Attribute):
            tgt = n.func.value; val = self.ev(n.args[0])
            c = Cell(alg.of_int(val.t) if isinstance(val, IntV) else val.t)
            loc = self.ev(tgt)
            if isinstance(loc, Cell): self.store_out(tgt, c)
            else: self.store_view(loc, Lazy(loc.length, lambda i: c.t))
            return None
        if fn == 'numpy.sum': return self.np_sum(n, kw)
        if fn == 'numpy.nan_to_num': return self.ev(n.args[0])     # identity on finite reals (assumption A6)
        if fn.startswith('numpy.') and fn[6:] in NP_UNARY:
            v = self.ev(n.args[0]); f = z3.Function('np_' + fn[6:], R, R)
            return self.maybe_out(kw, self.map1(v, lambda t: f(alg.of_int(t))))
        if fn in ('numpy.sign', 'numpy.absolute', 'numpy.abs', 'numpy.square', 'numpy.negative'):
            v = self.ev(n.args[0])
            g = {'numpy.sign': lambda t: z3.If(t > 0, alg.one, z3.If(t < 0, alg.neg(alg.one), alg.zero)),
                 'numpy.absolute': lambda t: z3.If(t >= 0, t, alg.neg(t)), 'numpy.abs': lambda t: z3.If(t >= 0, t, alg.neg(t)),
                 'numpy.square': lambda t: alg.mul(t, t), 'numpy.negative': lambda t: alg.neg(t)}[fn]
            return self.maybe_out(kw, self.map1(v, lambda t: g(alg.of_int(t))))
        if fn in ('numpy.less_equal', 'numpy.greater_equal', 'numpy.less', 'numpy.greater'):
            a, b = self.ev(n.args[0]), self.ev(n.args[1])
            cmpf = {'numpy.less_equal': lambda x, y: x <= y, 'numpy.greater_equal': lambda x, y: x >= y,
                    'numpy.less': lambda x, y: x < y, 'numpy.greater': lambda x, y: x > y}[fn]
            return self.map2(a, b, lambda x, y: z3.If(cmpf(x, y), alg.one, alg.zero))
        if fn == 'numpy.logical_and':
            a, b = self.ev(n.args[0]), self.ev(n.args[1]); return self.map2(a, b, lambda x, y: alg.mul(x, y))
        if fn in ('numpy.multiply', 'numpy.add', 'numpy.subtract', 'numpy.divide', 'numpy.true_divide'):
            a, b = self.ev(n.args[0]), self.ev(n.args[1])
            op = {'numpy.multiply': ast.Mult(), 'numpy.add': ast.Add(), 'numpy.subtract': ast.Sub(), 'numpy.divide': ast.Div(), 'numpy.true_divide': ast.Div()}[fn]
            return self.maybe_out(kw, self.binop(op, a, b))
        if fn == 'numpy.clip':
            x, lo, hi = [self.ev(a) for a in n.args[:3]]
            lo_t, hi_t = alg.of_int(lo.t), alg.of_int(hi.t)
            return self.maybe_out(kw, self.map1(x, lambda t: z3.If(t < lo_t, lo_t, z3.If(t > hi_t, hi_t, t))))
        if fn == 'numpy.shape' and len(n.args) == 1: return ('shape', self.ev(n.args[0]))
        if fn == 'numpy.outer' and alg.name == 'mat':
            a, b = self.ev(n.args[0]), self.ev(n.args[1]); return Cell(alg.outer(a.t, b.t))
        if fn == 'numpy.dot' and alg.name == 'mat':
            a, b = self.ev(n.args[0]), self.ev(n.args[1]); return Cell(alg.dot(a.t, b.t))
        if fn == 'numpy.linalg.inv' and alg.name == 'mat':
            a = self.ev(n.args[0]); return Cell(alg.f_inv(a.t))
        if fn == 'numpy.linalg.solve' and alg.name == 'mat':
            a, b = self.ev(n.args[0]), self.ev(n.args[1]); return Cell(alg.dot(alg.f_inv(a.t), b.t))
        if fn == 'numpy.promote_types': return TypeV('dtype')
        if fn == 'numpy.zeros' and alg.name == 'mat':
            if n.args and isinstance(n.args[0], ast.Attribute) and n.args[0].attr == 'shape':
                src = self.ev(n.args[0].value)
                if isinstance(src, (View, Lazy)):            # numpy.zeros(a.shape): a whole coefficient array of zero matrices
                    bid = st.new_base(src.length, z3.K(I, alg.Zero), name='zeros'); return View(bid, z3.IntVal(0), 1, src.length)
            return Cell(alg.Zero)                            # any other shape expression: one zero matrix temporary
        if fn == 'numpy.transpose' and alg.name == 'mat' and len(n.args) == 1 and 'axes' in kw and ast.unparse(kw['axes']).replace(' ', '').startswith('(0,1)+'):
            # the (D,P) axes stay in front, the trailing axes are permuted: the transpose of every matrix cell  (assumption A3c: the
            # trailing permutation computed by the caller is the reversal, i.e. the matrix transpose for 2-D cells)
            a = self.ev(n.args[0])
            if isinstance(a, Cell): return Cell(alg.f_T(a.t))
            f = st.elem(a); return Lazy(a.length, lambda i: alg.f_T(f(i)))
        if fn == 'nthderiv.np_filled_like':
            # np_filled_like(x, c, out=out): out.fill(c) if out given else new array filled with c   [contract of
            # algopy.nthderiv.np_filled_like, verified separately in ixvc/structural part and cross-checked natively]
            src = self.ev(n.args[0]); c = self.ev(n.args[1]); cc = alg.of_int(c.t) if isinstance(c, IntV) else c.t
            o = self.ev(kw['out']) if 'out' in kw else None
            if o is None:
                bid = st.new_base(src.length, z3.K(I, cc), name='filled'); return View(bid, z3.IntVal(0), 1, src.length)
            self.store_view(o, Lazy(o.length, lambda i: cc)); return o
        if fn in ('UTPM', 'cls', 'self.__class__', 'algopy.UTPM') and len(n.args) == 1 and (fn != 'cls' or st.env.get('cls') is None):
            a0 = self.ev(n.args[0])
            if isinstance(a0, Lazy): a0 = self.materialize(a0)
            if isinstance(a0, View): return ObjV('UTPM', {'data': a0})
            raise Undecided('constructor argument')
        if fn in ('UTPM._broadcast_arrays', 'cls._broadcast_arrays', 'self._broadcast_arrays') and len(n.args) == 2:
            # assumption A3b: _broadcast_arrays only transposes/broadcasts the batch axes; along the coefficient axis a Taylor
            # polynomial is unchanged and a plain array (reshaped to (1,1)+shape) is repeated for every order
            a0, b0 = self.ev(n.args[0]), self.ev(n.args[1])
            conv = lambda v, other: Lazy(other.length, lambda i, t=v.t: t) if isinstance(v, NdV) else v
            ref = a0 if isinstance(a0, (View, Lazy)) else b0
            return (conv(a0, ref), conv(b0, ref))
        if fn in ('numpy.may_share_memory', 'numpy.shares_memory') and len(n.args) == 2:
            a0, b0 = self.ev(n.args[0]), self.ev(n.args[1])
            return isinstance(a0, View) and isinstance(b0, View) and a0.base == b0.base
        # generic: callee under contract, opaque function value, method of object
        f = self.ev(n.func)
        if isinstance(f, tuple) and f and f[0] == 'arrmethod' and isinstance(f[1], NdV): return f[1]          # reshape/copy of a constant array
        if isinstance(f, tuple) and f and f[0] == 'clsmethod':
            cal = self.callees.get('UTPM.' + f[1])
            if not f[1].startswith('_') and cal is not None and hasattr(cal.c, 'fvalue'):      # public functional classmethod (UTPM.neg(x))
                names_, _ = cal.sig(); args_ = {}
                if getattr(cal.c, 'obj', None) == 'self' or (not names_ and n.args): names_ = ['self'] + list(names_)      # UTPM.exp(x): an instance method called through the class
                for nm_, a_ in zip(names_, n.args): args_[nm_] = self.ev(a_)
                for k_, v_ in kw.items():
                    if v_ is not None and not (isinstance(v_, ast.Constant) and v_.value is None): args_[k_] = self.ev(v_)
                args_ = {k_: v_ for k_, v_ in args_.items() if v_ is not None}
                return cal.apply_functional(self, args_, 'UTPM.' + f[1])
            return self.call_contract(f[1], n, kw)
        if isinstance(f, FuncV):
            simple = f.name.split('.')[-1]
            if f.name in self.callees or ('::' + f.name) in self.callees: return self.call_contract(f.name, n, kw)
            if f.name == 'functools.partial':
                g = self.ev(n.args[0]); bound = [self.ev(a) for a in n.args[1:]]
                return FuncV(g.name, g.bound + tuple(bound))
            return self.call_opaque(f, n, kw)
        if isinstance(f, tuple) and f and f[0] == 'method': return self.call_method(f[1], f[2], n, kw)
        raise Undecided('call ' + fn)

    def call_opaque(self, f, n, kw):
        """f(x0) / f(x0, n=k): an external scalar function and its n-th derivative -> uninterpreted DER(name;params)(n, x)"""
        alg = self.st.alg
        args = [self.ev(a) for a in n.args]
        if len(args) != 1 or not isinstance(args[0], Cell): raise Undecided('opaque call %s with non-cell argument' % f.name)
        order = z3.IntVal(0)
        if 'n' in kw:
            o = self.ev(kw['n'])
            if not isinstance(o, IntV): raise Undecided('derivative order not int')
            order = o.t
        extra = [k for k in kw if k not in ('n',)]
        if extra: raise Undecided('opaque call kwargs %s' % extra)
        tag = f.name + ''.join('|' + str(b.t) for b in f.bound)
        return Cell(DER(tag)(order, args[0].t))

    def map1(self, v, g):
        if isinstance(v, (Cell, IntV)): return Cell(g(v.t))
        f = self.st.elem(v); return Lazy(v.length, lambda i: g(f(i)))
    def map2(self, a, b, g):
        alg = self.st.alg
        if is_scalar(a) and is_scalar(b): return Cell(g(alg.of_int(a.t), alg.of_int(b.t)))
        if is_scalar(a): f = self.st.elem(b); return Lazy(b.length, lambda i: g(alg.of_int(a.t), f(i)))
        if is_scalar(b): f = self.st.elem(a); return Lazy(a.length, lambda i: g(f(i), alg.of_int(b.t)))
        fa, fb = self.st.elem(a), self.st.elem(b); return Lazy(a.length, lambda i: g(fa(i), fb(i)))
    def store_out(self, node, val):
        """`out=node` / node.fill(): an in-place write.  A name bound to a row view (y_d = y[d]) writes through to the array."""
        st = self.st
        if isinstance(node, ast.Name) and isinstance(st.env.get(node.id), CellRef):
            cur = st.env[node.id]
            if not cur.sure: raise Undecided('in-place write through %s: view or scalar copy depends on the array rank' % node.id)
            if not is_scalar(val): raise Undecided('array stored into a row view')
            arr, L = st.heap[cur.base]; t = val.t if isinstance(val, Cell) else st.alg.of_int(val.t)
            st.heap[cur.base] = (z3.Store(arr, z3.simplify(cur.idx), t), L); st.written.add(cur.base); return
        self.store(node, val)
    def maybe_out(self, kw, val):
        if 'out' in kw:
            o = self.ev(kw['out'])
            if o is None: return self.materialize(val) if not is_scalar(val) else val
            if isinstance(o, View): self.store_view(o, val); return o
            self.store_out(kw['out'], val); return self.ev(kw['out'])
        return val
    def materialize(self, v):
        st = self.st
        if isinstance(v, Cell): return v
        f = st.elem(v); st.fresh += 1; j = z3.Int('j!cp%d' % st.fresh)
        bid = st.new_base(v.length, z3.Lambda([j], f(j)), name='copy'); return View(bid, z3.IntVal(0), 1, v.length)

    def np_sum(self, n, kw):
        st = self.st; alg = st.alg
        ax = kw.get('axis')
        if ax is None or not (isinstance(ax, ast.Constant) and ax.value == 0): raise Undecided('numpy.sum without axis=0')
        a = n.args[0]
        if isinstance(a, ast.ListComp):
            if len(a.generators) != 1 or a.generators[0].ifs: raise Undecided('comprehension form')
            g = a.generators[0]; rng = self.ev(g.iter)
            if not (isinstance(rng, tuple) and rng[0] == 'range'): raise Undecided('comprehension over non-range')
            lo, hi = rng[1].t, rng[2].t - 1; var = g.target.id
            heap0, env0 = dict(st.heap), dict(st.env)
            def f(i, self=self, a=a, var=var, heap0=heap0, env0=env0):
                st = self.st; h, e, no, na = st.heap, st.env, len(st.oblig), list(st.assume)
                st.heap, st.env = dict(heap0), dict(env0); st.env[var] = IntV(i)
                st.assume = na + [lo <= i, i <= hi]
                try: t = self.ev(a.elt)
                finally: st.heap, st.env, st.assume = h, e, na; dropped = st.oblig[no:]; del st.oblig[no:]
                if not isinstance(t, (Cell, IntV)): raise Undecided('summand is not a cell')
                return alg.of_int(t.t) if alg.name != 'int' else t.t
            # bounds of the summand's subscripts are checked once for a symbolic index in range
            self._check_summand_safety(a, var, lo, hi)
            res = Cell(st.reg.Sum(lo, hi, f))
        else:
            v = self.ev(a)
            if isinstance(v, Cell): raise Undecided('numpy.sum of a cell')
            f = st.elem(v); res = Cell(st.reg.Sum(z3.IntVal(0), v.length - 1, f))
        if 'out' in kw:
            self.store_out(kw['out'], res); return None
        return res

    def _check_summand_safety(self, a, var, lo, hi):
        st = self.st; st.fresh += 1; i = z3.Int('%s!s%d' % (var, st.fresh))
        h, e, na, no = dict(st.heap), dict(st.env), list(st.assume), len(st.oblig)
        st.env[var] = IntV(i); st.assume = na + [lo <= i, i <= hi]
        try: self.ev(a.elt)
        finally: st.heap, st.env = h, e; st.assume = na
        # obligations created while evaluating the summand keep their (range-augmented) assumption snapshot

    # ------------------------------------------------------------------ contracts of callees
    def call_contract(self, name, n, kw):
        c = self.callees.get(name) or self.callees.get('::' + name)
        if c is None: raise Undecided('call to %s: no contract' % name)
        args = [self.ev(a) for a in n.args]; kwargs = {k: self.ev(v) for k, v in kw.items()}
        return c.apply(self, args, kwargs)

    def call_method(self, obj, meth, n, kw):
        st = self.st
        if meth in ('clone', 'copy') and isinstance(obj, ObjV) and 'data' in obj.attrs:
            return ObjV(obj.cls, {'data': self.materialize(obj.attrs['data'])})
        if meth == 'zeros_like' and isinstance(obj, ObjV):
            d = obj.attrs['data']; bid = st.new_base(d.length, z3.K(I, st.alg.zero), name='zeros')
            return ObjV(obj.cls, {'data': View(bid, z3.IntVal(0), 1, d.length)})
        if meth.startswith('_'):       # self._exp(...) : kernels reached through the instance
            return self.call_contract(meth, n, kw)
        cal = self.callees.get('UTPM.' + meth)
        if cal is not None and isinstance(obj, ObjV) and not n.args and not kw and hasattr(cal, 'apply_method'):
            return cal.apply_method(self, obj, meth)          # x.cos(), x.exp(), ...: through the method's contract (a new object)
        raise Undecided('method .%s()' % meth)

    # ------------------------------------------------------------------ stores
    def store_view(self, loc, val):
        """loc[...] = val   (element-wise over the positions of view `loc`)"""
        st = self.st; alg = st.alg
        if is_scalar(val):
            t = alg.of_int(val.t) if isinstance(val, IntV) and alg.name != 'int' else val.t
            f = lambda i: t
        else:
            f = st.elem(val)
            st.add_oblig('equal lengths in slice assignment', loc.length == val.length, 'safety')
        arr, L = st.heap[loc.base]
        n = ival(loc.length)
        if n is not None and n <= 64 and ival(loc.start) is not None:
            for i in range(n): arr = z3.Store(arr, z3.simplify(loc.start + loc.step * i), f(z3.IntVal(i)))
        else:
            st.fresh += 1; j = z3.Int('j!st%d' % st.fresh)
            if loc.step == 1: pos = j - loc.start; inr = z3.And(pos >= 0, pos < loc.length)
            elif loc.step == -1: pos = loc.start - j; inr = z3.And(pos >= 0, pos < loc.length)
            else: raise Undecided('strided store')
            arr = z3.Lambda([j], z3.If(inr, f(pos), z3.Select(arr, j)))
        st.heap[loc.base] = (arr, L); st.written.add(loc.base)

    def store(self, target, val):
        st = self.st; alg = st.alg
        if isinstance(target, ast.Name):
            st.env[target.id] = val; return
        if isinstance(target, (ast.Tuple, ast.List)) and isinstance(val, tuple) and val and val[0] == 'shape':
            a = val[1]
            for k, t in enumerate(target.elts):
                if not isinstance(t, ast.Name): raise Undecided('shape unpack target')
                if isinstance(a, (View, Lazy)) and k == 0: st.env[t.id] = IntV(a.length)
                elif isinstance(a, (View, Lazy)) and k == 1: st.env[t.id] = self.Pval()
                else:
                    st.fresh += 1; st.env[t.id] = IntV(z3.Int('dim!%d' % st.fresh))
            return
        if isinstance(target, (ast.Tuple, ast.List)):
            if not isinstance(val, (tuple, list)) or len(val) != len(target.elts): raise Undecided('tuple unpack')
            for t, v in zip(target.elts, val): self.store(t, v)
            return
        if isinstance(target, ast.Attribute):
            o = self.ev(target.value)
            if isinstance(o, ObjV): o.attrs[target.attr] = val; return
            raise Undecided('attribute store')
        if isinstance(target, ast.Subscript):
            base = self.ev(target.value)
            if isinstance(base, Cell) and isinstance(target.value, ast.Name):
                elts = target.slice.elts if isinstance(target.slice, ast.Tuple) else [target.slice]
                if all(self._trailing_ok(e) for e in elts) and is_scalar(val):
                    if isinstance(base, CellRef): self.store_out(target.value, val); return          # name[...] = v on a row view writes into the array
                    st.env[target.value.id] = Cell(val.t if isinstance(val, Cell) else alg.of_int(val.t)); return
                raise Undecided('partial store into a matrix cell')
            if not isinstance(base, View): raise Undecided('store into non-array')
            loc = self.subscript(base, target.slice)
            if isinstance(loc, Cell):
                sl = target.slice
                if isinstance(sl, ast.Tuple): sl = sl.elts[0]
                idx = self.ev(sl).t
                if self.decide(idx < 0) is True: idx = idx + base.length
                if not is_scalar(val): raise Undecided('array stored into a cell')
                t = alg.of_int(val.t) if isinstance(val, IntV) and alg.name != 'int' else val.t
                arr, L = st.heap[base.base]
                st.heap[base.base] = (z3.Store(arr, z3.simplify(base.start + base.step * idx), t), L); st.written.add(base.base); return
            self.store_view(loc, val); return
        raise Undecided('store target ' + type(target).__name__)

    # ------------------------------------------------------------------ statements
    def block(self, stmts):
        for k, s in enumerate(stmts):
            r = self.stmt(s, stmts[k + 1:])
            if r is not None: return r
    def stmt(self, s, rest=()):
        st = self.st
        self.__dict__.setdefault('visited', set()).add(getattr(s, 'lineno', None))      # statement coverage (lib/deductive: code no configuration reaches)
        if isinstance(s, ast.Expr):
            if isinstance(s.value, ast.Constant): return
            self.ev(s.value); return
        if isinstance(s, ast.Pass): return
        if isinstance(s, ast.Assert): return
        if isinstance(s, ast.Assign):
            v = self.ev(s.value)
            for t in s.targets: self.store(t, v)
            return
        if isinstance(s, ast.AugAssign):
            cur = self.ev(s.target); new = self.binop(s.op, cur, self.ev(s.value))
            if isinstance(s.target, (ast.Name, ast.Attribute)) and isinstance(cur, View):
                self.store_view(cur, new); return          # in-place update of the array the name / attribute (obj.data) refers to
            if isinstance(s.target, ast.Name) and isinstance(cur, CellRef):
                if not cur.sure: raise Undecided('in-place update through %s: view or scalar copy depends on the array rank' % s.target.id)
                if not is_scalar(new): raise Undecided('array stored into a row view')
                arr, L = st.heap[cur.base]; t = new.t if isinstance(new, Cell) else st.alg.of_int(new.t)
                st.heap[cur.base] = (z3.Store(arr, z3.simplify(cur.idx), t), L); st.written.add(cur.base); return
            self.store(s.target, new); return
        if isinstance(s, ast.If): return self.ifstmt(s, rest)
        if isinstance(s, ast.Raise): raise Undecided('reachable raise: ' + ast.unparse(s)[:60])
        if isinstance(s, ast.Return): return ('ret', self.ev(s.value) if s.value is not None else None)
        if isinstance(s, ast.For): return self.forloop(s)
        if isinstance(s, ast.Import) or isinstance(s, ast.ImportFrom): return
        raise Undecided('statement ' + type(s).__name__)

    def ifstmt(self, s, rest):
        st = self.st
        c = self.truth(self.ev(s.test))
        if isinstance(c, bool): return self.block(s.body if c else s.orelse)
        cond = c.t
        # symbolic branch: run both sides on copies, merge
        snap = (dict(st.heap), dict(st.env), list(st.assume))
        st.assume = snap[2] + [cond]; ra = self.block(s.body); ha, ea, aa = st.heap, st.env, st.assume
        st.heap, st.env, st.assume = dict(snap[0]), dict(snap[1]), snap[2] + [z3.Not(cond)]
        rb = self.block(s.orelse); hb, eb, ab = st.heap, st.env, st.assume
        if ra is not None or rb is not None: raise Undecided('return inside a symbolic branch')
        n0 = len(snap[2]) + 1
        st.assume = snap[2] + [z3.Implies(cond, x) for x in aa[n0:]] + [z3.Implies(z3.Not(cond), x) for x in ab[n0:]]
        heap = {}
        for b in set(ha) | set(hb):
            if b in ha and b in hb:
                (x, lx), (y, ly) = ha[b], hb[b]
                heap[b] = (x if z3.eq(x, y) else z3.If(cond, x, y), lx)
            else: heap[b] = ha.get(b) or hb.get(b)
        env = {}
        for k in set(ea) | set(eb):
            x, y = ea.get(k, _MISSING), eb.get(k, _MISSING)
            if x is _MISSING: env[k] = y
            elif y is _MISSING: env[k] = x
            elif isinstance(x, View) and isinstance(y, View) and x.base != y.base and x.step == 1 and y.step == 1 \
                    and ival(x.start) == 0 and ival(y.start) == 0 and z3.eq(z3.simplify(x.length), z3.simplify(y.length)):
                # the two branches bind the name to different whole arrays: the merged value is a new array holding the selected contents
                self.st.fresh += 1; bid = '%s_merged#%d' % (k, self.st.fresh)
                heap[bid] = (z3.If(cond, ha[x.base][0], hb[y.base][0]), x.length); self.st.initial[bid] = heap[bid][0]
                env[k] = View(bid, z3.IntVal(0), 1, x.length)
            else: env[k] = self.merge(cond, x, y, k)
        st.heap, st.env = heap, env; self.branch_conds.append(cond)

    def merge(self, cond, x, y, name):
        if x is y: return x
        if isinstance(x, IntV) and isinstance(y, IntV): return x if z3.eq(x.t, y.t) else IntV(z3.If(cond, x.t, y.t))
        if isinstance(x, Cell) and isinstance(y, Cell): return x if z3.eq(x.t, y.t) else Cell(z3.If(cond, x.t, y.t))
        if isinstance(x, View) and isinstance(y, View) and x.base == y.base and x.step == y.step:
            return View(x.base, z3.simplify(z3.If(cond, x.start, y.start)), x.step, z3.simplify(z3.If(cond, x.length, y.length)))
        if isinstance(x, Lazy) and isinstance(y, Lazy):
            return Lazy(z3.If(cond, x.length, y.length), lambda i: z3.If(cond, x.f(i), y.f(i)))
        if type(x) is type(y) and isinstance(x, (bool, type(None))) and x == y: return x
        return _Poison(name)

    def forloop(self, s):
        st = self.st
        if s.orelse: raise Undecided('for-else')
        rng = self.ev(s.iter)
        if not (isinstance(rng, tuple) and rng and rng[0] in ('range', 'rrange', 'drange')): raise Undecided('loop over non-range')
        if not isinstance(s.target, ast.Name): raise Undecided('loop target')
        var = s.target.id
        if rng[0] == 'range': lo, hi, desc = rng[1].t, rng[2].t, False                 # lo .. hi-1
        elif rng[0] == 'rrange': lo, hi, desc = rng[1].t, rng[2].t, True               # hi-1 .. lo
        else: lo, hi, desc = rng[2].t + 1, rng[1].t + 1, True                          # range(a,b,-1): a .. b+1
        k = self.loopno = self.loopno + 1
        if not hasattr(self, 'loop_nodes'): self.loop_nodes = {}
        self.loop_nodes[k] = s
        if not hasattr(self, 'loop_bounds'): self.loop_bounds = {}
        self.loop_bounds[k] = (lo, hi, desc, var)
        is_p = (var == 'p')
        a, b = ival(lo), ival(hi)
        if is_p:
            # direction loop: every iteration acts on its own batch position; the generic position is executed once
            pv = IntV(z3.Int('p!gen')); pv.is_p = True; st.env[var] = pv
            st.assume += [0 <= pv.t, pv.t < self.P]
            r = self.block(s.body)
            if r is not None: raise Undecided('return inside p loop')
            return
        if a is not None and b is not None:
            if b - a > 80: raise Undecided('concrete loop too long')
            seq = range(a, b) if not desc else range(b - 1, a - 1, -1)
            for i in seq:
                st.env[var] = IntV(i); r = self.block(s.body)
                if r is not None: raise Undecided('return inside loop')
            return
        # pure accumulation loops (`acc += f(k)`) are summarised exactly as acc_0 + sum_k f(k): no invariant needed, and the result does
        # not depend on how the loop happens to be indexed (robust against harmless re-indexing / renaming)
        if not os.environ.get("VERIF_NO_SUMMARIZE") and self.try_summarize(s, var, lo, hi, k): return
        if k not in self.inv: raise Undecided('loop%d (%s) has symbolic bounds and no invariant in the contract' % (k, ast.unparse(s.iter)))
        inv = self.inv[k]; ghost = self.inv.get(('ghost', k))
        first, last_next = (lo, hi) if not desc else (hi - 1, lo - 1)
        nxt = (lambda v: v + 1) if not desc else (lambda v: v - 1)
        nonempty = lo < hi
        st.env[var] = IntV(first)
        g0 = inv(self, first, True)
        st.add_oblig('loop%d invariant on entry' % k, z3.Implies(nonempty, g0))
        # dry run to find written bases / assigned names
        saved = (dict(st.heap), dict(st.env), len(st.oblig), list(st.assume), set(st.written), st.reg.n, list(st.reg.terms), self.loopno, list(self.branch_conds), len(st.callee_log))
        st.written = set(); st.env[var] = IntV(z3.Int(var + '!dry%d' % k)); st.assume = saved[3] + [lo <= st.env[var].t, st.env[var].t < hi]
        pre_born = {}
        try:
            for attempt in range(4):
                try:
                    self.block(s.body); break
                except Undecided as e:
                    # a local array that is created in an earlier iteration and used in later ones (`accum`): find its creating
                    # assignment in the body, evaluate it once to learn its extent, and give the dry run a placeholder
                    import re as _re
                    mname = _re.search(r"(?:unknown name |invariant names local ')(\w+)", str(e))
                    if not mname or attempt == 3: raise
                    nm = mname.group(1); creator = None
                    for node in ast.walk(ast.Module(body=list(s.body), type_ignores=[])):
                        if isinstance(node, ast.Assign) and len(node.targets) == 1 and isinstance(node.targets[0], ast.Name) and node.targets[0].id == nm: creator = node; break
                    if creator is None: raise
                    val = self.ev(creator.value)
                    if isinstance(val, Lazy): val = self.materialize(val)
                    if not isinstance(val, View): raise
                    bid = st.new_base(val.length, name=nm + '_dry'); st.env[nm] = View(bid, z3.IntVal(0), 1, val.length); pre_born[nm] = st.env[nm]
                    st.written = set(); self.loopno = saved[7]
        finally:
            wr = set(b for b in st.written if b in saved[0]); env_after = st.env
            # array locals first created inside the body (e.g. `accum = x[1:].copy()` in the first iteration) live on to later
            # iterations: at the arbitrary iteration they exist with unknown contents (the invariant constrains them)
            born = {nm: v for nm, v in list(env_after.items()) + list(pre_born.items()) if nm not in saved[1] and isinstance(v, View) and v.base not in saved[0]
                    and ival(v.start) == 0 and v.step == 1 and ('!dry' not in z3.simplify(v.length).sexpr())}
            changed = [nm for nm in saved[1] if nm != var and env_after.get(nm) is not saved[1][nm]]
            st.heap, st.env = saved[0], saved[1]; del st.oblig[saved[2]:]; st.assume = saved[3]; st.written = saved[4]
            st.reg.n = saved[5]; st.reg.terms = saved[6]; self.loopno = saved[7]; self.branch_conds = saved[8]; del st.callee_log[saved[9]:]
        carried = [nm for nm in changed if isinstance(saved[1][nm], (IntV, Cell))]
        base_assume = list(st.assume)
        v = z3.Int('%s!%d' % (var, k))
        for bb in wr: st.heap[bb] = (z3.Const('%s!loop%d' % (bb, k), st.ARR), st.heap[bb][1])
        for nm in carried:
            old = saved[1][nm]
            st.env[nm] = IntV(z3.Int('%s!loop%d' % (nm, k))) if isinstance(old, IntV) else Cell(z3.Const('%s!loop%d' % (nm, k), old.t.sort()))
        for nm, vw in born.items():
            bid = st.new_base(vw.length, name=nm + '_born'); st.env[nm] = View(bid, z3.IntVal(0), 1, vw.length)
        st.env[var] = IntV(v); st.assume = base_assume + [lo <= v, v < hi]
        st.assume.append(inv(self, v, False))
        if ghost: st.assume += list(ghost(self, v))
        r = self.block(s.body)
        if r is not None: raise Undecided('return inside loop')
        st.env[var] = IntV(nxt(v))
        g1 = inv(self, nxt(v), True)
        st.add_oblig('loop%d invariant preserved' % k, g1)
        for bb in wr: st.heap[bb] = (z3.Const('%s!exit%d' % (bb, k), st.ARR), st.heap[bb][1])
        for nm in carried:
            old = saved[1][nm]
            st.env[nm] = IntV(z3.Int('%s!exit%d' % (nm, k))) if isinstance(old, IntV) else Cell(z3.Const('%s!exit%d' % (nm, k), old.t.sort()))
        for nm, vw in born.items():
            bid = st.new_base(vw.length, name=nm + '_exit'); st.env[nm] = View(bid, z3.IntVal(0), 1, vw.length)
        ex = z3.If(nonempty, last_next, first)
        st.env[var] = IntV(z3.simplify(z3.If(nonempty, last_next - (1 if not desc else -1), first)))
        st.assume = base_assume + [inv(self, ex, False)]
        st.written |= wr


def _contains(t, sub):
    seen = set(); stack = [t]
    while stack:
        u = stack.pop()
        if u.get_id() in seen: continue
        seen.add(u.get_id())
        if z3.eq(u, sub): return True
        stack.extend(u.children())
    return False


def _try_summarize(self, s, var, lo, hi, k, promote=()):
    """returns True when the loop was recognised as a pure accumulation and its effect has been applied to the state.
    promote: names of accumulators that enter the loop as integer constants (`acc = 0`) and become coefficients in the body; their
    entry value is replaced by a fresh coefficient constant for the recognition pass."""
    st = self.st; alg = st.alg
    j = z3.Int('%s!acc%d' % (var, k))
    saved = (dict(st.heap), dict(st.env), len(st.oblig), list(st.assume), set(st.written), st.reg.n, list(st.reg.terms), self.loopno, list(self.branch_conds), len(st.callee_log))
    def restore(keep_oblig):
        st.heap, st.env = dict(saved[0]), dict(saved[1]); st.assume = list(saved[3]); st.written = set(saved[4])
        self.loopno = saved[7]; self.branch_conds = list(saved[8]); del st.callee_log[saved[9]:]
        if not keep_oblig: del st.oblig[saved[2]:]; st.reg.n = saved[5]; st.reg.terms = list(saved[6])
    st.written = set(); st.env[var] = IntV(j); st.assume = saved[3] + [lo <= j, j < hi]
    fresh = {}
    assigned = {t.id for t in ast.walk(s) if isinstance(t, ast.Name) and isinstance(t.ctx, ast.Store)}
    for nm in assigned:          # every coefficient-valued local the body assigns enters the recognition pass as a fresh constant
        if nm != var and (nm in promote or type(saved[1].get(nm)) is Cell): fresh[nm] = z3.FreshConst(alg.sort, 'acc0'); st.env[nm] = Cell(fresh[nm])
    try:
        r = self.block(s.body)
    except Undecided:
        restore(False); return False
    if r is not None or st.reg.n != saved[5] or len(st.callee_log) != saved[9] or self.loopno != saved[7]:
        restore(False); return False
    updates = []          # (kind, key, entry value term, increment term in j)
    for b, (arr, L) in st.heap.items():
        if b not in saved[0]:
            continue
        old = saved[0][b][0]
        if z3.eq(arr, old): continue
        if not (z3.is_store(arr) and z3.eq(arr.arg(0), old)): restore(False); return False
        idx, val = arr.arg(1), arr.arg(2)
        if _contains(idx, j): restore(False); return False
        cur = z3.Select(old, idx)
        g = self._increment(val, cur)
        if g is None or _contains(g, cur) or _contains(g, old): restore(False); return False
        updates.append(('heap', (b, idx), cur, g))
    for nm, v in st.env.items():
        if nm == var: continue
        o = saved[1].get(nm)
        if o is v or nm not in saved[1]: continue
        if nm in fresh:
            if not isinstance(v, Cell): restore(False); return False
            g = self._increment(v.t, fresh[nm])
            if g is None or _contains(g, fresh[nm]): restore(False); return False
            updates.append(('env', nm, alg.of_int(o.t) if isinstance(o, IntV) else o.t, g))
        elif isinstance(o, IntV) and isinstance(v, Cell) and not promote and z3.is_int_value(o.t):
            restore(False)
            return self.try_summarize(s, var, lo, hi, k, promote=tuple(n_ for n_, v_ in st.env.items() if isinstance(v_, IntV) and z3.is_int_value(v_.t)
                                                                       and any(isinstance(t, ast.Name) and t.id == n_ and isinstance(t.ctx, ast.Store) for t in ast.walk(s))))
        else: restore(False); return False
    # an increment may read neither an accumulator nor an array that this loop updates (it would see the partial sums)
    if any(_contains(u[3], f) for u in updates for f in fresh.values()): restore(False); return False
    changed_olds = [saved[0][u[1][0]][0] for u in updates if u[0] == 'heap']
    if any(_contains(u[3], o_) for u in updates for o_ in changed_olds): restore(False); return False
    for b, (arr, L) in st.heap.items():
        if any(_contains(arr, f) for f in fresh.values()): restore(False); return False
    if not updates: restore(False); return False
    restore(True)                      # keep the safety obligations generated for an arbitrary index in range
    for kind, key, cur, g in updates:
        total = alg.add(cur, st.reg.Sum(lo, hi - 1, (lambda i, g=g: z3.substitute(g, (j, i)))))
        if kind == 'heap':
            b, idx = key; arr, L = st.heap[b]; st.heap[b] = (z3.Store(arr, idx, total), L); st.written.add(b)
        else: st.env[key] = Cell(total)
    self.summarized = getattr(self, 'summarized', 0) + 1
    return True


def _increment(self, val, cur):
    """val = cur (+) g  ->  g, else None"""
    alg = self.st.alg
    if alg.name == 'mat':
        if z3.is_app(val) and val.decl().name() == 'madd' and z3.eq(val.arg(0), cur): return val.arg(1)
        if z3.is_app(val) and val.decl().name() == 'madd' and z3.eq(val.arg(1), cur): return val.arg(0)
        return None
    return z3.simplify(val - cur)


class _Poison:
    def __init__(s, name): s.name = name
_MISSING = object()

_FACT = z3.Function('FACT', I, I)
def FACT(t): return _FACT(t)
def fact_axioms(terms):
    out = [_FACT(0) == 1, _FACT(1) == 1]
    for t in terms: out += [z3.Implies(t >= 1, _FACT(t) == t * _FACT(t - 1)), z3.Implies(t >= 0, _FACT(t) >= 1)]
    return out
_DER = {}
def DER(tag):
    """DER(tag)(n, x): n-th derivative at x of the external scalar function `tag` (n = 0: the function)."""
    if tag not in _DER: _DER[tag] = z3.Function('DER<%s>' % tag, I, R, R)
    return _DER[tag]

def _sum_consts(fs):
    seen = set(); out = set(); stack = list(fs)
    while stack:
        t = stack.pop()
        if t.get_id() in seen: continue
        seen.add(t.get_id())
        if z3.is_quantifier(t): stack.append(t.body()); continue
        if z3.is_const(t) and t.decl().kind() == z3.Z3_OP_UNINTERPRETED and t.decl().name().startswith('S!'): out.add(t.decl().name())
        stack.extend(t.children())
    return out

def _undecided(msg): raise Undecided(msg)


Exec.try_summarize = _try_summarize
Exec._increment = _increment


def _has_quant(f):
    seen = set(); stack = [f]
    while stack:
        t = stack.pop()
        if z3.is_quantifier(t): return True
        if t.get_id() in seen: continue
        seen.add(t.get_id()); stack.extend(t.children())
    return False


# ----------------------------------------------------------------------------------------------------------
# source access
_SRC_CACHE = {}
def load_function(repo, relpath, qual):
    """returns (ast.FunctionDef, source segment, sha256) of the function `qual` (Class.name / name / Class.name.inner)"""
    key = (repo, relpath)
    if key not in _SRC_CACHE:
        src = open('%s/%s' % (repo, relpath)).read(); _SRC_CACHE[key] = (src, ast.parse(src))
    src, tree = _SRC_CACHE[key]
    node = tree
    for part in qual.split('.'):
        found = None
        for ch in ast.walk(node) if node is not tree else tree.body:
            if isinstance(ch, (ast.ClassDef, ast.FunctionDef)) and ch.name == part and ch is not node: found = ch; break
        if found is None:
            for ch in ast.walk(node):
                if isinstance(ch, (ast.ClassDef, ast.FunctionDef)) and ch.name == part and ch is not node: found = ch; break
        if found is None: raise Undecided('function %s not found in %s' % (qual, relpath))
        node = found
    seg = ast.get_source_segment(src, node)
    return node, seg, hashlib.sha256(seg.encode()).hexdigest()


def _split_goal(g):
    """split a goal into independently provable conjuncts"""
    if z3.is_and(g):
        out = []
        for ch in g.children(): out += _split_goal(ch)
        return out
    if z3.is_implies(g):
        a, b = g.children()
        return [z3.Implies(a, x) for x in _split_goal(b)]
    return [g]


RLIMIT_PER_MS = 1300          # calibrated: z3 consumes about 1.2-1.3 million resource units per CPU second on these queries


def _check(assumptions, goal, timeout_ms, seed=0):
    """budgets are given in (nominal) milliseconds but enforced through z3's deterministic resource limit, so that verdicts do
    not depend on how busy the machine is; the wall-clock timeout (4x) is a backstop, needed because z3's non-linear procedures do not always honour rlimit"""
    s = z3.Solver(); s.set('rlimit', int(timeout_ms * RLIMIT_PER_MS)); s.set('timeout', int(max(4000, min(timeout_ms * 4, timeout_ms + 30000))))
    if seed: s.set('random_seed', seed)
    s.add(*assumptions); s.add(z3.Not(goal))
    r = s.check()
    return str(r), (s.reason_unknown() if r == z3.unknown else '')


PAIR_TIMEOUT_MS = 150
MAX_PAIR_QUERIES = 400        # per obligation conjunct: the unchanged tree needs < 150; bounds the cost of an obligation that no longer holds


def sum_facts(ob, reg, alg, depth=1, pair_timeout_ms=None):
    """Stage 1 of the Sum tactic: peel/empty lemma instances for the records occurring in the obligation, and the
    equalities between records whose summands agree under a shift or a reversal -- each established by its own small
    query under the obligation's assumptions (the skolemised form of the congruence lemma)."""
    only = _sum_consts(list(ob.assume) + [ob.goal])
    # close under "occurs in the summand (or at the end points) of a relevant record"
    changed = True; probe = z3.Int('i!rel')
    while changed:
        changed = False
        for (c, lo, hi, f) in reg.terms[:ob.nsums]:
            if c.decl().name() in only:
                try: more = _sum_consts([f(probe), f(lo), f(hi)])
                except Undecided: more = set()
                if not more <= only: only |= more; changed = True
    base = [r for r in reg.terms[:ob.nsums] if r[0].decl().name() in only]
    if not base: return []
    n0 = reg.n; out = []; allrec = list(base); layer = base
    for _ in range(depth):
        new = []
        for (c, lo, hi, f) in layer:
            out.append(z3.Implies(hi < lo, c == alg.zero))
            cl = z3.Const('S!%d' % reg.n, alg.sort); reg.n += 1; new.append((cl, z3.simplify(lo), z3.simplify(hi - 1), f))
            out.append(z3.Implies(lo <= hi, c == alg.add(cl, f(hi))))
            cf = z3.Const('S!%d' % reg.n, alg.sort); reg.n += 1; new.append((cf, z3.simplify(lo + 1), z3.simplify(hi), f))
            out.append(z3.Implies(lo <= hi, c == alg.add(f(lo), cf)))
        allrec += new; layer = new
    for (c, lo, hi, f) in layer: out.append(z3.Implies(hi < lo, c == alg.zero))
    reg.n = n0
    ctx = list(ob.assume)
    lin = z3.Solver(); lin.set('timeout', 1000); lin.add(*[a for a in ob.assume if not _has_quant(a)])
    w = z3.Int('w!cg')
    # zero lemma: a sum whose terms all vanish is zero (skolemised: one small query per record)
    for (ca, loa, hia, fa) in allrec:
        try: prem = z3.Implies(z3.And(loa <= w, w <= hia), fa(w) == alg.zero)
        except Undecided: continue
        v, _ = _check(ctx, prem, pair_timeout_ms or PAIR_TIMEOUT_MS)
        if v == 'unsat': out.append(ca == alg.zero)
    npairs = 0
    for (a, b) in itertools.combinations(allrec, 2):
        (ca, loa, hia, fa), (cb, lob, hib, fb) = a, b
        if npairs >= MAX_PAIR_QUERIES: break
        lin.push(); lin.add(hib - lob != hia - loa); r = lin.check(); lin.pop()
        if r != z3.unsat: continue
        rng = z3.And(loa <= w, w <= hia)
        for img in (w + lob - loa, hib - (w - loa)):
            try: prem = z3.Implies(rng, fa(w) == fb(img))
            except Undecided: continue
            v, _ = _check(ctx, prem, pair_timeout_ms or PAIR_TIMEOUT_MS); npairs += 1
            if v == 'unsat': out.append(ca == cb); break
    return out


def _goal_skolems(f):
    out = {}; seen = set(); stack = [f]
    while stack:
        t = stack.pop()
        if t.get_id() in seen: continue
        seen.add(t.get_id())
        if z3.is_quantifier(t): stack.append(t.body()); continue
        if z3.is_const(t) and t.decl().kind() == z3.Z3_OP_UNINTERPRETED and z3.is_int(t) and '!sk' in t.decl().name(): out[t.decl().name()] = t
        stack.extend(t.children())
    return list(out.values())

def _generalise(fact, ob):
    """forall-introduction: a conjunct proved for goal skolems j (arbitrary constants) holds for all j, provided no hypothesis constrains
    j -- the only hypotheses allowed to mention j are instances of spec definitions (valid at every index).  The generalised fact is
    what later conjuncts need (z[d] is computed from the y[d] stored just before, at an index that is not the skolem)."""
    sks = _goal_skolems(fact)
    if not sks: return fact
    for a in ob.assume:
        if a.get_id() in ob.def_ids: continue
        if any(_contains(a, sk) for sk in sks): return fact
    vs = [z3.Int('g!%s' % sk.decl().name().replace('!', '_')) for sk in sks]
    return z3.ForAll(vs, z3.substitute(fact, *zip(sks, vs)))

def discharge(ob, reg, alg, timeout_ms=20000, extra=(), depth=1, seed=0, pair_timeout_ms=None):
    """returns (verdict, seconds, solver_info): verdict in unsat / sat / unknown"""
    if z3.is_true(ob.goal): return 'unsat', 0.0, 'trivial'
    t = time.time()
    base = list(ob.assume) + list(ob.axioms) + list(extra)
    goals = []
    for g in _split_goal(ob.goal):
        ante = []
        while z3.is_implies(g): ante.append(g.arg(0)); g = g.arg(1)           # antecedents of the goal become hypotheses
        goals.append((ante, g))
    # conjuncts are proved in order; every proven conjunct becomes a hypothesis for the later ones (e.g. z[d] is computed from the
    # y[d] written just before).  Fast path first: many obligations need no Sum reasoning at all.
    for (ante, g) in goals:
        v, w = _check(base + ante, g, 1500 if ob.nsums else timeout_ms, seed)
        if v != 'unsat' and ob.nsums:
            ob2 = Obligation(ob.name, g, list(ob.assume) + [b_ for b_ in base[len(ob.assume) + len(ob.axioms) + len(extra):]] + ante, ob.nsums, ob.kind, ob.axioms)
            facts = sum_facts(ob2, reg, alg, depth, pair_timeout_ms)
            v, w = _check(base + ante + facts, g, timeout_ms, seed)
        if v != 'unsat': return v, time.time() - t, w
        base.append(_generalise(z3.Implies(z3.And(*ante), g) if ante else g, ob))
    return 'unsat', time.time() - t, ''
